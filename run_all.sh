#!/bin/sh
# ./run_all.sh [tier] : every claimed check once, summary of exit codes (used for seed sweeps)
TIER=${1:-quick}
cd "$(dirname "$0")"
for p in $(/venv/bin/python -c "import json;print(' '.join(c['property_id'] for c in json.load(open('MANIFEST.json'))['checks']))"); do
  s=$(date +%s)
  ./check $p --tier $TIER > /tmp/run_all_$p.log 2>&1
  rc=$?
  echo "$p rc=$rc $(( $(date +%s) - s ))s $(tail -1 /tmp/run_all_$p.log | cut -c1-150)"
done

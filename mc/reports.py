"""Normalised, order-free views of every public report of a System (DESIGN A.4); used by the differential oracles of
C12, C15, C16, C17.  Tables are keyed by (Phase, Component | Rail | Active phase), never by row position."""
import io, json, os, math, contextlib, re
from .common import quiet_call, VERIF, close, workdir as _wd, cleanup_workdir as _cw


def _cell(v):
    if isinstance(v, float):
        if math.isnan(v):
            return "nan"
        return v
    if isinstance(v, (list, dict)):
        return json.dumps(v, sort_keys=True)
    try:
        import numpy as np
        if isinstance(v, np.generic):
            return v.item()
    except Exception:
        pass
    return v


def table(df, keycols):
    if df is None:
        return None
    out = {}
    cols = list(df.columns)
    for r in df.to_dict("records"):
        key = tuple(str(r.get(k, "")) for k in keycols)
        n = 0
        while key + (n,) in out:
            n += 1
        out[key + (n,)] = {c: _cell(r[c]) for c in cols}
    return {"cols": sorted(cols), "rows": out}


def diff_tables(a, b, rt=0.0, at=0.0, token_cols=("Warnings",), ignore_cols=()):
    """list of differences between two normalised tables (empty = equal)."""
    if a is None or b is None:
        return [] if a is b else ["one side is None"]
    if isinstance(a, tuple) or isinstance(b, tuple):
        return [] if a == b else ["%r vs %r" % (a, b)]
    d = []
    ca, cb = [c for c in a["cols"] if c not in ignore_cols], [c for c in b["cols"] if c not in ignore_cols]
    if ca != cb:
        d.append("columns %r vs %r" % (sorted(set(ca) - set(cb)), sorted(set(cb) - set(ca))))
    ka, kb = set(a["rows"]), set(b["rows"])
    if ka != kb:
        d.append("rows only left %r only right %r" % (sorted(ka - kb)[:4], sorted(kb - ka)[:4]))
    for k in sorted(ka & kb):
        ra, rb = a["rows"][k], b["rows"][k]
        for c in ra:
            if c in ignore_cols or c not in rb:
                continue
            x, y = ra[c], rb[c]
            if x == y:
                continue
            if isinstance(x, float) and isinstance(y, float) and (rt or at) and close(x, y, rt, at):
                continue
            if c in token_cols and set(re.split(r"[,\s]+", str(x))) == set(re.split(r"[,\s]+", str(y))):
                continue
            d.append("%s %s: %r vs %r" % (k[:-1], c, x, y))
            if len(d) > 6:
                return d
    return d


def tree_text(s, name=""):
    _, out = quiet_call(s.tree, name) if name else quiet_call(s.tree)
    return out


def parse_tree(text):
    """rich tree text -> set of (depth, name) paths as parent->child edges."""
    edges, stack = set(), []
    for line in text.splitlines():
        if not line.strip():
            continue
        m = re.match(r"^([│ ├└─\s]*)(.*)$", line)
        depth = len(m.group(1)) // 4
        nm = m.group(2).strip()
        stack = stack[:depth]
        edges.add((stack[-1] if stack else None, nm))
        stack.append(nm)
    return frozenset(edges)


def save_doc(s, tag=""):
    d = _wd("rep")
    path = os.path.join(d, "s%s.json" % tag)
    s.save(path)
    with open(path) as f:
        doc = json.load(f)
    return doc, path


def norm_save(doc):
    """child lists as sets keyed by name; mux parents ordered; registries as dicts."""
    out = {"system": doc.get("system")}
    for k, v in doc.items():
        if k == "system":
            continue
        e = {x: v[x] for x in v if x != "childs"}
        ch = {}
        for p, lst in v.get("childs", {}).items():
            ch[p] = sorted((json.dumps(c, sort_keys=True) for c in lst))
        e["childs"] = ch
        out[k] = e
    return json.loads(json.dumps(out, sort_keys=True, default=str))


ANALYSES = ["solve", "solve_energy", "rail_rep", "params", "limits", "phases", "tree", "save"]


def report(s, name):
    try:
        if name == "solve":
            return table(quiet_call(s.solve)[0], ["Phase", "Component"])
        if name == "solve_energy":
            return table(quiet_call(s.solve, energy=True)[0], ["Phase", "Component"])
        if name == "rail_rep":
            df = quiet_call(s.rail_rep)[0]
            if df is not None and "Rail" in df.columns:
                return table(df, ["Phase", "Rail"])
            return table(df, ["Phase", "Component"])
        if name == "params":
            return table(s.params(limits=True), ["Component"])
        if name == "limits":
            return table(s.limits(), ["Component"])
        if name == "phases":
            return table(s.phases(), ["Component", "Active phase"])
        if name == "tree":
            return ("tree", parse_tree(tree_text(s)))
        if name == "save":
            return ("save", json.dumps(norm_save(save_doc(s)[0]), sort_keys=True))
        if name == "diag":
            from sysloss.diagram import make_diag
            from .dotparse import parse
            d = _wd("rep")
            path = os.path.join(d, "g.raw")
            quiet_call(make_diag, s, fname=path)
            with open(path) as f:
                gph = parse(f.read())
            return ("diag", tuple(sorted(gph["nodes"])), tuple(sorted((a, b) for a, b, _ in gph["edges"])),
                    tuple(sorted((n, c or "") for n, (c, _) in gph["nodes"].items())), tuple(gph["errors"]))
    except Exception as e:
        return ("EXC", type(e).__name__, str(e)[:120])
    raise KeyError(name)


def all_reports(s, names=ANALYSES):
    return {n: report(s, n) for n in names}


def diff_reports(a, b, rt=0.0, at=0.0, ignore_save_order=True):
    out = []
    for n in a:
        x, y = a[n], b.get(n)
        if isinstance(x, dict) and isinstance(y, dict):
            for d in diff_tables(x, y, rt, at):
                out.append((n, d))
        elif x != y:
            out.append((n, "%s vs %s" % (str(x)[:150], str(y)[:150])))
    return out

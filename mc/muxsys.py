"""Multi-input PMux systems shared by C04 (no live input), C05, C07, C08."""
import itertools, copy
from .sysmodel import letters, PALETTES, PH2, _r

INPUT_OPTS = [("S", "live"), ("S", "zero"), ("S", "inact"),
              ("SC", "live"), ("SC", "zero"), ("SC", "inact-src"), ("SC", "inact-reg"),
              ("SH", "live"), ("SH", "inact-reg"),
              ("SL", "live"), ("SL", "starved")]  # own source + LinReg; 'starved': the source is below the drop-out voltage, the regulator outputs 0 V without being "off"


def mux_spec(inputs, pal=0, rs_list=False, rails=False, by_rail=False, below="std", own_loads=True, pol=1, order=None, mux_pc=None, ig_table=False):
    """inputs: list of (type, status).  Phases PH2: 'inact*' elements are active in phase a only."""
    L = letters(pal)
    V = PALETTES[pal]["V"] * pol
    comps = []
    ends = []
    shared = any(t == "SH" for t, _ in inputs)
    if shared:
        comps.append(dict(n="S0", k="Source", a=dict(vo=_r(V * 1.1), rs=0.05 if pol > 0 else 0.0), p=[], g="", r="", pc=None, lim=None))
    for j, (t, st) in enumerate(inputs, 1):
        if t == "SL":
            kind, args = L["LRc"]
            a = copy.deepcopy(args)
            a["vo"] = _r(a["vo"] * pol)
            vo = _r(V * (1.0 + 0.07 * j)) if st == "live" else _r(0.5 * a["vdrop"] * pol)
            sn = "S%d" % j
            comps.append(dict(n=sn, k="Source", a=dict(vo=vo, rs=0.0), p=[], g="", r="", pc=None, lim=None))
            end = "G%d" % j
            comps.append(dict(n=end, k=kind, a=a, p=[sn], g="", r="RG%d" % j if rails else "", pc=None, lim=None))
        elif t in ("S", "SC"):
            vo = 0.0 if st == "zero" else _r(V * (1.0 + 0.07 * j))
            sn = "S%d" % j
            comps.append(dict(n=sn, k="Source", a=dict(vo=vo, rs=_r(0.02 * j) if pol > 0 else 0.0), p=[], g="", r="RS%d" % j if rails and t == "S" else "",
                              pc=["a"] if st in ("inact", "inact-src") else None, lim=None))
            end = sn
            if t == "SC":
                kind, args = L["CVc"]
                a = copy.deepcopy(args)
                a["vo"] = _r(a["vo"] * pol * (1 + 0.05 * j))
                end = "C%d" % j
                comps.append(dict(n=end, k=kind, a=a, p=[sn], g="", r="RC%d" % j if rails else "", pc=["a"] if st == "inact-reg" else None, lim=None))
        else:
            kind, args = L["PSc"]
            end = "P%d" % j
            comps.append(dict(n=end, k=kind, a=copy.deepcopy(args), p=["S0"], g="", r="RP%d" % j if rails else "", pc=["a"] if st == "inact-reg" else None, lim=None))
        ends.append(end)
        if own_loads:
            kind, args = L["IL"]
            a = copy.deepcopy(args)
            a["ii"] = _r(a["ii"] * (1 + 0.1 * j))
            comps.append(dict(n="LI%d" % j, k=kind, a=a, p=[end], g="", r="", pc=None, lim=None))
    k = len(inputs)
    kind, args = L["MX"]
    a = copy.deepcopy(args)
    if rs_list:
        a["rs"] = [_r(args["rs"] * (1 + 0.5 * j)) for j in range(k)]
        if rs_list == "neg":   # per-input resistances written with a negative sign are magnitudes
            a["rs"] = [-x for x in a["rs"]]
    if ig_table:  # planar 2-D ground-current table: the lookup must use the SELECTED input's voltage
        Vp = PALETTES[pal]["V"]
        io_ax, vi_ax = [0.0, 0.05, 0.5], [_r(0.4 * Vp), _r(1.6 * Vp)]
        a["ig"] = {"vi": vi_ax, "io": io_ax, "ig": [[_r(1e-4 + 2e-3 * x / 0.5 + 1e-3 * y / Vp) for x in io_ax] for y in vi_ax]}
    recs = {c["n"]: c for c in comps}
    pdes = [recs[e]["r"] if (by_rail and recs[e]["r"]) else e for e in ends]
    if order:  # priority order different from creation order
        pdes = [pdes[j] for j in order]
    comps.append(dict(n="M", k=kind, a=a, p=pdes, g="", r="RM" if rails else "", pc=mux_pc, lim=None, plist=True))
    if below in ("std", "deep"):
        kind, args = L["IL"]
        comps.append(dict(n="LM", k=kind, a=copy.deepcopy(args), p=["RM" if (by_rail and rails) else "M"], g="", r="", pc=None, lim=None))
        kind, args = L["RL"]
        comps.append(dict(n="RB", k=kind, a=copy.deepcopy(args), p=["M"], g="", r="", pc=None, lim=None))
        kind, args = L["PL"]
        comps.append(dict(n="PB", k=kind, a=copy.deepcopy(args), p=["RB"], g="", r="", pc=None, lim=None))
    if below == "deep":
        kind, args = L["CVc"]
        comps.append(dict(n="CB", k=kind, a=copy.deepcopy(args), p=["RB"], g="", r="", pc=None, lim=None))
        kind, args = L["RO"]
        comps.append(dict(n="OB", k=kind, a=copy.deepcopy(args), p=["CB"], g="", r="", pc=None, lim=None))
    return dict(name="mux", comps=comps, phases=dict(PH2))


def live_in_phase(inp, ph):
    t, st = inp
    if st in ("zero", "starved"):
        return False
    if st.startswith("inact"):
        return ph == "a"
    return True


def apply_remux(s, spec):
    """after an analysis: delete the mux (with its subtree) and re-add it with its inputs in REVERSED priority order; returns the new spec."""
    from .sysmodel import make_comp
    sub = ["M"] + [c["n"] for c in spec["comps"] if c["n"] in ("LM", "RB", "PB", "CB", "OB")]
    s.del_comp("M")
    spec = copy.deepcopy(spec)
    for c in spec["comps"]:
        if c["n"] == "M":
            c["p"] = list(reversed(c["p"]))
    for c in spec["comps"]:
        if c["n"] in sub:
            s.add_comp(c["p"] if c["n"] == "M" else c["p"][0], comp=make_comp(c))
    return spec

"""E2 -- explicit-state explorer over edit histories of a live System (DESIGN 2.2, A.1-A.3).

A state is a history (list of ops); the real object is always rebuilt by replaying the history on a fresh System (deepcopy of a
rustworkx graph does not preserve its free-index stack, so copies have different futures).  States are merged on K_full = graph
(index -> component, ordered successor / predecessor lists) + every registry as an ordered item list + component parameters and limits
+ the ghost free-index list.  Search is breadth first, bounded by depth and by a deviation budget (cost of unusual arguments)."""
import os, json, copy, collections, itertools, hashlib, multiprocessing as mp
from . import common
from .common import NPROC, quiet_call
from sysloss.system import System
from sysloss.components import Source, RLoss, Converter, ILoad, PMux, LinReg, Rectifier, _ComponentTypes

LET = {
    "R": lambda n: RLoss(n, rs=0.5),
    "W": lambda n: RLoss(n, rs=0.5, limits={"vi": [0.0, 1.0], "pl": [0.0, 1e-6], "tp": [0.0, 1.0e6]}),   # tp equals the default of the OTHER keys  # same element with limits that make it warn
    "C": lambda n: Converter(n, vo=3.3, eff=0.9, iq=1e-3, iis=1e-4),
    "I": lambda n: ILoad(n, ii=0.1, iis=1e-3),
    "M": lambda n: PMux(n, rs=0.1, ig=1e-4),
    "m": lambda n: PMux(n, rs=[0.1, 0.25], ig=1e-4),   # per-input resistances: the list may be shorter / longer than the inputs it is wired to
    "S": lambda n: Source(n, vo=5.0, rs=0.05),
    "D": lambda n: Rectifier(n, vdrop=0.2),
}
KIND_OF = {"R": "RLoss", "C": "Converter", "I": "ILoad", "M": "PMux", "S": "Source", "D": "Rectifier"}
LETTER_OF = {v: k for k, v in KIND_OF.items()}
SAME_KIND = {"W": "R", "m": "M"}

SEEDS = {
    "single": [],
    "rails": [["ac", "Q0", "C", "A1", "QA", "g1"], ["ac", "A1", "I", "A2", "", "g2"]],            # S1 has rail Q0 (see mk)
    "mux": [["ac", "S1", "R", "A1", ""], ["as", "S2", ""], ["ac", ["A1", "S2"], "M", "MX", ""], ["ac", "MX", "I", "A3", ""]],
    "freed0": [["as", "S2", ""], ["dc", "S1", True], ["ac", "S2", "M", "MX", ""], ["ac", "MX", "I", "A3", ""]],   # a PMux sitting at graph index 0
    "rerail": [["ac", "S1", "C", "A1", "QA"], ["ac", "QA", "I", "A2", ""], ["ac", "S1", "R", "A3", ""], ["cc", "A1", "C", "A1", "QB"], ["cc", "A3", "R", "A3", "QA"]],  # a rail handed over to another owner
    "blank": [["ac", "S1", "R", "B1 ", "R1 "], ["ac", "B1 ", "I", " L1", ""]],                      # names / rails with leading or trailing blanks
    "chain": [["ac", "S1", "R", "A1", ""], ["ac", "A1", "C", "A2", ""], ["ac", "A2", "I", "A3", ""], ["anp", "params"]],   # an analysis was run before the edits start
    "mux3": [["ac", "S1", "R", "A1", ""], ["as", "S2", ""], ["ac", ["A1", "S1", "S2"], "M", "MX", ""], ["ac", "MX", "I", "A3", ""], ["ac", "A1", "I", "A4", ""]],
    "phases": [["ac", "S1", "C", "A1", ""], ["ac", "A1", "I", "A2", ""], ["sp", [["p", 1.0], ["q", 2.0]]], ["cp", "A1", ["p"], "l"], ["cp", "A2", [["p", 0.05]], "d"]],
    # a mux one of whose inputs (A3) is a grandchild of another input (A1): deleting the element between them re-links A3 with a NEWER edge
    "muxdeep": [["ac", "S1", "R", "A1", ""], ["ac", "A1", "R", "A2", ""], ["ac", "A2", "C", "A3", ""], ["ac", ["A3", "A1"], "M", "MX", ""], ["ac", "MX", "I", "A4", ""]],
    # a mux whose inputs were given by RAIL name (S1 owns rail Q0, A1 owns QA)
    "railmux": [["ac", "Q0", "C", "A1", "QA"], ["as", "S2", ""], ["ac", ["QA", "S2"], "M", "MX", ""], ["ac", "MX", "I", "A3", ""]],
    # a mux with a per-input resistance list fed by A1 and by A1's own parent: deleting A1 (del_childs=False) merges two inputs
    "muxlist": [["ac", "S1", "R", "A1", ""], ["ac", ["S1", "A1"], "m", "MX", ""], ["ac", "MX", "I", "A3", ""]],
    # two rectifiers separated by a series element (every kind on the path; links that a del_childs=False re-link creates are links add_comp must accept)
    "rect": [["ac", "S1", "D", "A1", ""], ["ac", "A1", "R", "A2", ""], ["ac", "A2", "D", "A3", ""], ["ac", "A3", "I", "A4", ""]],
    # a system that was LOADED from a file in the layout of release 1.0.x (registries created by from_file, not by the constructor)
    "oldfile": [["ac", "S1", "C", "A1", ""], ["ac", "A1", "I", "A2", ""], ["ac", "S1", "R", "A3", ""], ["rlo"]],
    "freed": [["ac", "S1", "R", "A1", ""], ["ac", "A1", "I", "A2", ""], ["ac", "S1", "C", "A3", ""], ["dc", "A1", True]],
}


def mk(seed):
    if seed in ("rails", "railmux"):
        return System("t", LET["S"]("S1"), rail="Q0")
    return System("t", LET["S"]("S1"))


def apply(s, op):
    k = op[0]
    if k == "as":
        s.add_source(LET["S"](op[1]), rail=op[2])
    elif k == "asx":  # add_source with something that is not a Source
        s.add_source(LET[op[2]](op[1]))
    elif k == "ac":
        s.add_comp(list(op[1]) if isinstance(op[1], (list, tuple)) else op[1], comp=LET[op[2]](op[3]), rail=op[4], group=op[5] if len(op) > 5 else "")
    elif k == "cc":
        s.change_comp(op[1], comp=LET[op[2]](op[3]), rail=op[4], group=op[5] if len(op) > 5 else "")
    elif k == "ccs":  # change_comp handed the very object that is already stored at that node (callers that keep their component objects)
        idx = s._g.attrs["nodes"].get(op[1])
        comp = s._g[idx] if idx is not None else LET["R"](op[1])
        s.change_comp(op[1], comp=comp, rail=op[2], group=op[3] if len(op) > 3 else "")
    elif k == "dc":
        dcv = op[2]
        if dcv == "np0":   # numpy.False_ : falsy, but not the object False
            import numpy as _np
            dcv = _np.bool_(False)
        s.del_comp(op[1], del_childs=dcv)
    elif k == "sp":
        s.set_sys_phases(dict((a, b) for a, b in op[1]))
    elif k == "cp":
        if op[3] == "l":
            arg = list(op[2])
        elif op[3] == "d":
            arg = dict((a, b) for a, b in op[2])
        else:
            arg = op[2]
        s.set_comp_phases(op[1], arg)
    elif k == "rlo":  # the system is saved, the file rewritten in the layout of release 1.0.x (no groups / rails tables) and loaded again IN PLACE
        import os as _os
        pth = _os.path.join(common.workdir("e2"), "old_%d.json" % _os.getpid())
        s.save(pth)
        doc = json.load(open(pth))
        doc["system"].pop("groups", None)
        doc["system"].pop("rails", None)
        doc["system"]["version"] = "1.0.0"
        json.dump(doc, open(pth, "w"))
        s2 = quiet_call(System.from_file, pth)[0]
        s._g = s2._g
        for a_ in ("_parents", "_childs", "_topo_nodes", "_phase_lkup"):
            if hasattr(s, a_):
                delattr(s, a_)
    elif k == "anp":  # a cheap analysis (params) that refreshes the relationship caches
        s.params()
    elif k == "an":  # an analysis call in the middle of an edit history (must not influence anything later)
        quiet_call(s.solve, energy=True)
    else:
        raise KeyError(k)


WERROR = {"on": False}   # last op of a transition executed with warnings promoted to errors (python -W error / pytest filterwarnings=error)


def step(s, ghost, op, werror=False):
    """apply op, maintain the ghost free list; returns (ghost', exception or None)."""
    before = set(s._g.node_indices())
    exc = None
    try:
        with __import__("warnings").catch_warnings():
            __import__("warnings").simplefilter("error" if werror else "ignore")
            apply(s, op)
    except Exception as e:
        exc = e
    after = set(s._g.node_indices())
    if op[0] == "rlo" and exc is None:
        return (), None          # a freshly loaded graph has no freed indices
    g2 = list(ghost)
    for x in sorted(before - after):
        g2.append(x)
    for x in after - before:
        if x in g2:
            g2.remove(x)
    return tuple(g2), exc


def replay(seed, hist):
    s = mk(seed)
    ghost = ()
    for op in SEEDS[seed] + list(hist):
        ghost, _ = step(s, ghost, op)
    return s, ghost


def _pj(x):
    return json.dumps(x, sort_keys=False, default=str)


def kfull(s, ghost, extra=True):
    g = s._g
    nodes = tuple((n, type(g[n]).__name__, _pj(g[n]._params), _pj(g[n]._limits), tuple(g.successor_indices(n)), tuple(g.predecessor_indices(n)))
                  for n in g.node_indices())
    A = g.attrs
    regs = tuple((k, _pj(A[k]) if k != "pnames" else _pj(sorted((int(i), v) for i, v in A[k].items())))
                 for k in ["name", "nodes", "groups", "rails", "phase_conf", "phases", "pnames"])
    if not extra:  # core key: what the property talks about (used for before / after comparisons, so that a benign cache attribute is no alarm)
        return (nodes, regs, tuple(ghost))
    # for MERGING states any other instance / graph attribute counts as hidden state: a finer key can only cost time, never hide a behaviour
    extra = tuple(sorted((k, repr(v)[:200]) for k, v in s.__dict__.items() if k not in ("_g", "_parents", "_childs", "_topo_nodes", "_phase_lkup")))
    extra += tuple(sorted((k, repr(v)[:200]) for k, v in A.items() if k not in ("name", "nodes", "groups", "rails", "phase_conf", "phases", "pnames", "hidx")))
    return (nodes, regs, tuple(ghost), extra)


def khash(k):
    return hashlib.sha1(repr(k).encode()).hexdigest()


def ids(s):
    return tuple((n, id(s._g[n])) for n in s._g.node_indices())


# ------------------------------------------------------------------------------------------------
# op menu with deviation costs (DESIGN A.2)
# ------------------------------------------------------------------------------------------------
def ops(s, budget, letters="RCIM", phase_ops=True, gone=(), analysis_op=False, odd=False):
    A = s._g.attrs
    names = list(A["nodes"].keys())
    rails = [r for r in A["rails"].values() if r]
    used = set(names) | set(rails)
    fresh = next("N%d" % i for i in range(1, 99) if "N%d" % i not in used)
    frail = next("Q%d" % i for i in range(1, 99) if "Q%d" % i not in used)
    out = []

    def add(cost, op):
        if cost <= budget:
            out.append((cost, op))

    add(0, ["as", fresh, ""])
    add(1, ["asx", fresh, "R"])
    add(1, ["asx", fresh, "I"])
    add(1, ["as", fresh, frail])
    add(1, ["as", names[0], ""])
    add(2, ["as", fresh, names[0]])
    if rails:
        add(2, ["as", fresh, rails[0]])
        add(2, ["as", rails[0], ""])
    targets = [(0, n) for n in names] + [(1, r) for r in rails] + [(1, "nope")]
    for c, p in targets:
        for L in letters:
            add(c, ["ac", p, L, fresh, ""])
            if L == letters[0]:
                add(c + 1, ["ac", p, L, fresh, "", "g1"])
            add(c + 1, ["ac", p, L, fresh, frail])
            add(c + 1, ["ac", p, L, names[0], ""])
            if len(names) > 1 and L == letters[0]:
                add(c + 1, ["ac", p, L, names[-1], ""])      # colliding with the most recently added name as well
            if L == letters[0]:
                add(c + 2, ["ac", p, L, names[0], frail])     # colliding NAME together with a fresh, valid rail
            add(c + 2, ["ac", p, L, fresh, fresh])
            add(c + 2, ["ac", p, L, fresh, names[-1]])
            if rails:
                add(c + 2, ["ac", p, L, fresh, rails[0]])
                add(c + 2, ["ac", p, L, rails[0], ""])
    for a in names:
        for b in names:
            if a != b:
                add(0, ["ac", [a, b], "M", fresh, ""])
                add(1, ["ac", [a, b], "R", fresh, ""])
    if len(names) >= 2 and "M" in letters:  # a mux with a per-input resistance LIST (2 entries) on 1, 2 and 3 inputs
        add(1, ["ac", names[0], "m", fresh, ""])
        add(1, ["ac", [names[0], names[-1]], "m", fresh, ""])
        add(1, ["ac", [names[-1], names[0]], "m", fresh, frail])
        if len(names) >= 3:
            add(2, ["ac", [names[0], names[1], names[-1]], "m", fresh, ""])
    if len(names) >= 3:  # three-input muxes (an input that is the child of another input included)
        for a, b, c in itertools.permutations(names[:3], 3):
            add(1, ["ac", [a, b, c], "M", fresh, ""])
    for old in gone:  # re-adding a name that was deleted earlier in this history
        if old not in used:
            add(1, ["ac", names[0], "I", old, ""])
            add(1, ["ac", names[-1], "C", old, ""])
            add(1, ["as", old, ""])
    if analysis_op:
        add(1, ["an", "solve_energy"])
    add(2, ["ac", [], "M", fresh, frail])        # an empty parent list
    add(2, ["ac", names[0], letters[0], fresh, "nope"])   # the name used as "unknown target" elsewhere becomes a real rail
    if len(names) >= 1:
        add(1, ["ac", [names[0], names[0]], "M", fresh, ""])
        if rails:
            add(1, ["ac", [names[-1], rails[0]], "M", fresh, ""])
    for c, t in targets:
        for L in letters + "S" + ("m" if "M" in letters else ""):
            kc = 0 if L in "RC" else (1 if L != "m" else 2)
            add(c + kc, ["cc", t, L, t, ""])
            if L == letters[0]:
                add(c + kc + 1, ["cc", t, L, t, "", "g2"])
            add(c + kc + 1, ["cc", t, L, fresh, ""])
            add(c + kc + 1, ["cc", t, L, t, frail])
            add(c + kc + 2, ["cc", t, L, t, t])
            if rails:
                add(c + kc + 2, ["cc", t, L, t, rails[0]])
                add(c + kc + 2, ["cc", t, L, t, rails[-1]])
            if len(names) > 1:
                other = [n for n in names if n != t][0]
                add(c + kc + 2, ["cc", t, L, other, ""])
                add(c + kc + 2, ["cc", t, L, t, other])
    for t in (names if phase_ops else []):   # the stored object itself is passed back (same name by construction): rail none / fresh / colliding / a component's name
        add(1, ["ccs", t, ""])
        add(2, ["ccs", t, frail])
        add(2, ["ccs", t, names[0] if names[0] != t else names[-1]])
        if rails:
            add(2, ["ccs", t, rails[0]])
        add(2, ["ccs", t, "", "g3"])
    for c, t in targets:
        add(c, ["dc", t, True])
        add(c + 1, ["dc", t, False])
        if phase_ops:   # falsy flags that are not the object False (0, numpy.False_)
            add(c + 2, ["dc", t, 0])
            add(c + 2, ["dc", t, "np0"])
    if phase_ops:
        add(1, ["sp", [["p", 1.0], ["q", 2.0]]])
        add(1, ["sp", [["p", 5.0], ["q", 2.0], ["r", 1.0]]])
        add(1, ["sp", [["x", 1.0], ["y", 2.0]]])                    # re-definition with other names: component configurations stay as they are
        add(2, ["sp", [["p", 1.0]]])
        add(2, ["sp", [["N/A", 1.0], ["q", 2.0]]])
        add(2, ["sp", [["p", 4.0], ["N/A", 1.0], ["q", 2.0]]])      # reserved name NOT in first position
        add(2, ["sp", []])
        if odd:   # durations that are not numbers (C15 only: whatever the call does with them, a refusal must be atomic)
            add(2, ["sp", [["p", 1.0], ["q", "0.5"]]])
            add(2, ["sp", [["p", 1.0], ["q", None], ["r", 2.0]]])
            add(2, ["sp", [["p", [1.0]], ["q", 2.0]]])
        for c, t in [(1, n) for n in names] + [(2, r) for r in rails] + [(2, "nope")]:
            add(c, ["cp", t, ["p"], "l"])
            add(c, ["cp", t, [], "l"])                                   # an EMPTY configuration (= always active / nominal), as list and as dict
            add(c, ["cp", t, [], "d"])
            add(c, ["cp", t, ["q", "p"], "l"])                          # a later ["p"] must REPLACE this list, not extend it
            add(c, ["cp", t, [["p", 0.05]], "d"])
            add(c, ["cp", t, [["p", 0.0], ["q", 0.02]], "d"])   # an explicit zero for one phase
            add(c + 1, ["cp", t, 123, "x"])
    return out


# ------------------------------------------------------------------------------------------------
# structure extraction and reference edit semantics (accepted calls only)
# ------------------------------------------------------------------------------------------------
def kstruct(s):
    """order-free structure read from the real object: name -> record."""
    g, A = s._g, s._g.attrs
    idx2name = {n: g[n]._params["name"] for n in g.node_indices()}
    out = {}
    for n in g.node_indices():
        c = g[n]
        name = c._params["name"]
        preds = [idx2name[p] for p in g.predecessor_indices(n)]
        if len(preds) > 1:
            pn = list(A["pnames"].get(n, []))
            # designators in pnames may be rails
            owners = {r: k for k, r in A["rails"].items() if r}
            preds = [p if p in A["nodes"] else owners.get(p, p) for p in pn]
        out[name] = dict(letter=LETTER_OF.get(type(c).__name__, "?"), params=_pj(c._params), parents=preds,
                         rail=A["rails"].get(name, "<missing>"), group=A["groups"].get(name, "<missing>"), pc=_pj(A["phase_conf"].get(name, "<missing>")),
                         limits=_pj(c._limits))
    return {"comps": out, "phases": _pj(A["phases"])}


def model_init(seed):
    m = {"comps": {"S1": dict(letter="S", parents=[], rail="Q0" if seed in ("rails", "railmux") else "", group="", pc="{}")}, "phases": "{}"}
    ms = [m]
    for op in SEEDS[seed]:
        ms = model_apply(ms, op)
    return ms


def _owner(m, des):
    if des in m["comps"]:
        return des
    for n, r in m["comps"].items():
        if r["rail"] and r["rail"] == des:
            return n
    return None


def model_apply(models, op):
    """reference semantics of an ACCEPTED call; returns the list of acceptable resulting structures."""
    out = []
    for m in models:
        m = copy.deepcopy(m)
        C = m["comps"]
        k = op[0]
        if k == "as":
            C[op[1]] = dict(letter="S", parents=[], rail=op[2], group="", pc="{}")
            out.append(m)
        elif k == "asx":  # never acceptable: a non-source root
            m["comps"]["<non-source accepted as source>"] = dict(letter="?", parents=[], rail="", group="", pc="{}")
            out.append(m)
        elif k == "ac":
            des = op[1] if isinstance(op[1], (list, tuple)) else [op[1]]
            owners = []
            for d_ in des:  # a component addressed twice (by name and by its rail) is one parent
                o = _owner(m, d_)
                if o not in owners:
                    owners.append(o)
            C[op[3]] = dict(letter=op[2], parents=owners, rail="" if op[2] == "I" else op[4], group=op[5] if len(op) > 5 else "", pc="{}")
            out.append(m)
        elif k == "cc":
            t = _owner(m, op[1])
            old = C.pop(t)
            new = dict(letter=op[2], parents=old["parents"], rail="" if op[2] == "I" else op[4], group=op[5] if len(op) > 5 else "", pc="{}")
            # keep position irrelevant (order-free); rename references
            C[op[3]] = new
            for r in C.values():
                r["parents"] = [op[3] if p == t else p for p in r["parents"]]
            out.append(m)
        elif k == "ccs":
            t = op[1]
            C[t] = dict(C[t], rail="" if C[t]["letter"] == "I" else op[2], group=op[3] if len(op) > 3 else "", pc="{}")
            out.append(m)
        elif k == "dc":
            t = _owner(m, op[1])
            if op[2] and op[2] != "np0":
                dead = {t}
                changed = True
                while changed:
                    changed = False
                    for n, r in C.items():
                        if n not in dead and any(p in dead for p in r["parents"]):
                            dead.add(n)
                            changed = True
                for n in dead:
                    del C[n]
                out.append(m)
            else:
                par = C[t]["parents"][0] if C[t]["parents"] else None
                del C[t]
                variants = [m]
                for n, r in list(C.items()):
                    if t in r["parents"]:
                        if len(r["parents"]) == 1:
                            for v in variants:
                                v["comps"][n]["parents"] = [par]
                        else:
                            nv = []
                            for v in variants:
                                ps = v["comps"][n]["parents"]
                                i = ps.index(t)
                                cands = []
                                if par in ps:
                                    cands.append([p for p in ps if p != t])            # merged
                                else:
                                    cands.append(ps[:i] + [par] + ps[i + 1:])            # the new parent takes the deleted input's place
                                for cnd in cands:
                                    v2 = copy.deepcopy(v)
                                    v2["comps"][n]["parents"] = cnd
                                    nv.append(v2)
                            variants = nv
                out += variants
        elif k == "sp":
            m["phases"] = _pj(dict((a, b) for a, b in op[1]))
            out.append(m)
        elif k in ("an", "anp", "rlo"):
            out.append(m)
        elif k == "cp":
            t = _owner(m, op[1])
            arg = list(op[2]) if op[3] == "l" else dict((a, b) for a, b in op[2])
            C[t]["pc"] = _pj(arg)
            out.append(m)
    return out


def struct_matches(real, model):
    """compare kstruct(real) with one model structure; returns list of differences."""
    d = []
    rc, mc = real["comps"], model["comps"]
    if set(rc) != set(mc):
        return ["components %r vs expected %r" % (sorted(rc), sorted(mc))]
    if real["phases"] != model["phases"]:
        d.append("phases %s vs %s" % (real["phases"], model["phases"]))
    for n in rc:
        r, m = rc[n], mc[n]
        if r["letter"] != SAME_KIND.get(m["letter"], m["letter"]):
            d.append("%s kind %s vs %s" % (n, r["letter"], m["letter"]))
        elif r["params"] != _pj(LET[m["letter"]](n)._params):
            d.append("%s params differ" % n)
        elif r["limits"] != _pj(LET[m["letter"]](n)._limits):
            # a component that came out of a file carries its APPLICABLE limits only: same limits, fewer keys
            rl, el = json.loads(r["limits"]), json.loads(_pj(LET[m["letter"]](n)._limits))
            if not (isinstance(rl, dict) and all(k_ in el and el[k_] == v_ for k_, v_ in rl.items())):
                d.append("%s limits differ" % n)
        pr, pm = r["parents"], m["parents"]
        if (pr != pm) if len(pm) > 1 else (sorted(pr) != sorted(pm)):
            d.append("%s parents %r vs %r" % (n, pr, pm))
        for f in ("rail", "group", "pc"):
            if r[f] != m[f]:
                d.append("%s %s %r vs %r" % (n, f, r[f], m[f]))
    return d


def build_fresh(model):
    """a system built from scratch, in canonical order, with the structure of the model (public API only)."""
    C = model["comps"]
    srcs = sorted(n for n in C if C[n]["letter"] == "S")
    s = None
    done = []
    for n in srcs:
        if s is None:
            s = System("t", LET["S"](n), rail=C[n]["rail"], group=C[n]["group"])
        else:
            s.add_source(LET["S"](n), rail=C[n]["rail"], group=C[n]["group"])
        done.append(n)
    rem = sorted(n for n in C if n not in done)
    while rem:
        prog = False
        for n in list(rem):
            if all(p in done for p in C[n]["parents"]):
                ps = C[n]["parents"]
                s.add_comp(ps if len(ps) > 1 else ps[0], comp=LET[C[n]["letter"]](n), rail=C[n]["rail"], group=C[n]["group"])
                done.append(n)
                rem.remove(n)
                prog = True
        if not prog:
            raise RuntimeError("cyclic model")
    ph = json.loads(model["phases"])
    if ph:
        s.set_sys_phases(ph)
    for n in C:
        pc = json.loads(C[n]["pc"])
        if pc or C[n]["pc"] != "{}":   # an explicitly configured EMPTY list is part of the structure (it is saved as [] rather than {})
            s.set_comp_phases(n, pc)
    return s


# ------------------------------------------------------------------------------------------------
# C14 invariant (white-box registries + graph; the public views are compared by C16)
# ------------------------------------------------------------------------------------------------
def invariant(s):
    g, A = s._g, s._g.attrs
    errs = []
    live = {}
    for n in g.node_indices():
        nm = g[n]._params["name"]
        if nm in live:
            errs.append("duplicate-name")
        live[nm] = n
    for reg in ["nodes", "groups", "rails", "phase_conf"]:
        if set(A[reg].keys()) != set(live):
            errs.append("registry-%s-keys" % reg)
    for k, v in A["nodes"].items():
        if k in live and live[k] != v:
            errs.append("nodes-index-mismatch")
    rails = [r for r in A["rails"].values() if r]
    if len(rails) != len(set(rails)):
        errs.append("duplicate-rail")
    if set(rails) & set(live):
        errs.append("rail-equals-name")
    nm = 0
    for n in g.node_indices():
        c = g[n]
        indeg = g.in_degree(n)
        t = c._component_type
        if t == _ComponentTypes.SOURCE and indeg != 0:
            errs.append("source-not-root")
        if t != _ComponentTypes.SOURCE and indeg == 0:
            errs.append("non-source-root")
        if t == _ComponentTypes.LOAD and g.out_degree(n) > 0:
            errs.append("load-with-children")
        if indeg > 1 and t != _ComponentTypes.PMUX:
            errs.append("multi-parent-non-mux")
        if len(set(g.predecessor_indices(n))) != indeg:
            errs.append("parallel-links")          # the same parent linked twice
        if indeg > 1 and len(A["pnames"].get(n, [])) != indeg:
            errs.append("input-list-length")       # a mux whose ordered input list disagrees with its links
        if t == _ComponentTypes.PMUX:
            nm += 1
        if t == _ComponentTypes.LOAD and A["rails"].get(c._params["name"], ""):
            errs.append("load-with-rail")
        for p in g.predecessor_indices(n):
            if t not in g[p]._child_types:
                errs.append("illegal-link")
    if nm > 1:
        errs.append("two-mux")
    return sorted(set(errs))


# ------------------------------------------------------------------------------------------------
# the explorer: breadth-first, two parallel phases per level (transitions, then checks on the NEW distinct states)
# ------------------------------------------------------------------------------------------------
_CTX = {}


def _expand(task):
    seed, hist, used, part, nparts = task
    B, letters, trans_check, phase_ops = _CTX["B"], _CTX["letters"], _CTX["trans_check"], _CTX["phase_ops"]
    s0, g0 = replay(seed, hist)
    key0 = kfull(s0, g0)
    core0 = kfull(s0, g0, extra=False)
    out = []
    memo = {}
    live = set(s0._g.attrs["nodes"])
    gone = []
    for op_ in SEEDS[seed] + list(hist):
        if op_[0] in ("as", "ac", "cc"):
            nm = op_[1] if op_[0] == "as" else op_[3]
            if nm not in live and nm not in gone:
                gone.append(nm)
    for cost, op in ops(s0, B - used, letters, phase_ops, gone, _CTX.get("analysis_op", False), _CTX.get("odd", False))[part::nparts]:
        s, g = replay(seed, hist)
        idb = ids(s)
        g2, exc = step(s, g, op, werror=_CTX.get("werror", False))
        key = kfull(s, g2)
        viol = []
        if trans_check is not None:
            viol = trans_check(seed, hist, op, s0, core0, s, kfull(s, g2, extra=False), idb, exc, memo)
        out.append((op, cost, khash(key), exc is not None, type(exc).__name__ if exc is not None else "", viol, key == key0))
    return (seed, hist, used, out)


def _check_state(task):
    seed, hist = task
    return (seed, hist, _CTX["state_check"](seed, hist))


def explore(run, seeds, D, B, letters="RCIM", trans_check=None, state_check=None, phase_ops=True, max_states=None, note_family="edits", analysis_op=False, werror=False, odd=False):
    """Breadth-first search; returns dict of statistics.  Violating states / transitions are recorded on `run` and not expanded.
    werror: the LAST call of every transition runs with warnings promoted to errors (a warning then rejects the call); prefixes run normally."""
    if os.environ.get("VERIF_SMOKE_E2CAP"):   # development aid only (smoke-testing the thorough tier): never set by the registered commands
        max_states = int(os.environ["VERIF_SMOKE_E2CAP"])
    _CTX.update(B=B, letters=letters, trans_check=trans_check, state_check=state_check, phase_ops=phase_ops, analysis_op=analysis_op, werror=werror, odd=odd)
    ctx = mp.get_context("fork")
    pool = ctx.Pool(NPROC) if NPROC > 1 else None
    mapper = (lambda f, xs: pool.imap_unordered(f, xs, chunksize=4)) if pool else (lambda f, xs: map(f, xs))
    seen = {}
    frontier = []
    stats = collections.Counter()
    per_depth = []
    try:
        for sd in seeds:
            s, g = replay(sd, [])
            seen[(sd, khash(kfull(s, g)))] = 0
            frontier.append((sd, [], 0))
            stats["states"] += 1
        if state_check is not None:
            for sd, hist, viol in mapper(_check_state, [(sd, h) for sd, h, _ in frontier]):
                for sig, det in viol:
                    run.note(sig, dict(seed=sd, hist=hist), det, note_family)
        for d in range(D):
            new = {}
            nparts = max(1, (NPROC * 6) // max(1, len(frontier)))  # small frontiers: split the op menu of each state over workers
            tasks = [(sd, h, u, i, nparts) for sd, h, u in frontier for i in range(nparts)]
            capped = False
            for sd, hist, used, out in mapper(_expand, tasks):
                if max_states and stats["states"] > max_states:   # stop INSIDE the level: the frontier of a deep level can be far larger than the cap
                    capped = True
                    break
                for op, cost, kh, rejected, exn, viol, same in out:
                    stats["transitions"] += 1
                    if rejected:
                        stats["rejected"] += 1
                        stats["rejected:%s:%s" % (op[0], exn)] += 1
                    for sig, det in viol:
                        run.note(sig, dict(seed=sd, hist=hist + [op], **({"werror": True} if werror else {})), det, note_family)
                    if viol or (rejected and same) or (werror and rejected):
                        continue
                    k = (sd, kh)
                    c = used + cost
                    if k not in seen or seen[k] > c:
                        if k not in seen:
                            stats["states"] += 1
                            stats["states_via_" + op[0]] += 1
                        seen[k] = c
                        if k not in new or new[k][2] > c:
                            new[k] = (sd, hist + [op], c)
            nxt = list(new.values())
            if capped:
                run.caps.append("state cap %d reached INSIDE depth %d (levels <= %d fully covered, level %d partially)" % (max_states, d + 1, d, d + 1))
                per_depth.append(dict(depth=d + 1, states=stats["states"], transitions=stats["transitions"], frontier=len(nxt), partial=True))
                if pool:
                    pool.terminate()
                    pool = None
                break
            if state_check is not None and nxt:
                bad = set()
                for sd, hist, viol in mapper(_check_state, [(sd, h) for sd, h, _ in nxt]):
                    stats["state_checks"] += 1
                    for sig, det in viol:
                        run.note(sig, dict(seed=sd, hist=hist), det, note_family)
                    if viol:
                        bad.add((sd, _pj(hist)))
                nxt = [x for x in nxt if (x[0], _pj(x[1])) not in bad]
            per_depth.append(dict(depth=d + 1, states=stats["states"], transitions=stats["transitions"], frontier=len(nxt)))
            frontier = nxt
            if max_states and stats["states"] > max_states:
                run.caps.append("state cap %d reached after depth %d (levels <= %d fully covered)" % (max_states, d + 1, d + 1))
                break
            if not frontier:
                break
    finally:
        if pool:
            pool.close()
            pool.join()
    stats["per_depth"] = per_depth
    return stats

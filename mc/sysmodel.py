"""System descriptions ("specs"), the component alphabet, tree enumeration, the observation layer and the
reference laws (DESIGN.md 2.3 / 2.4).  Everything here is harness-side; the implementation under test is only
touched through its public API in build()/observe().

spec = {"name": str, "comps": [comp, ...] (construction order), "phases": {name: dur}|None}
comp = {"n": name, "k": kind, "a": ctor kwargs, "p": [parent designators], "g": group, "r": rail,
        "pc": phase configuration|None, "lim": limits|None}
"""
from . import common  # noqa: F401  (binds sys.path to the working tree)
import math, itertools, copy
from sysloss.system import System
import sysloss.components as C

KINDS = {k: getattr(C, k) for k in
         ["Source", "PLoad", "ILoad", "RLoad", "RLoss", "VLoss", "Converter", "LinReg", "PSwitch", "PMux", "Rectifier"]}
LOADS = ("PLoad", "ILoad", "RLoad")
PHASE_LIST_KINDS = ("Source", "Converter", "LinReg", "PSwitch", "PMux")
TYPE_NAME = {"Source": "SOURCE", "PLoad": "LOAD", "ILoad": "LOAD", "RLoad": "LOAD", "RLoss": "SLOSS", "VLoss": "SLOSS",
             "Converter": "CONVERTER", "LinReg": "LINREG", "PSwitch": "PSWITCH", "PMux": "PMUX", "Rectifier": "RECTIFIER"}

# ------------------------------------------------------------------------------------------------
# palettes and letters
# ------------------------------------------------------------------------------------------------
PALETTES = [
    dict(V=5.0, kv=1.0, ki=1.0, kr=1.0, kd=1.0, de=0.0),
    dict(V=12.0, kv=2.4, ki=0.6, kr=1.7, kd=1.4, de=-0.06),
    dict(V=3.7, kv=0.74, ki=1.5, kr=0.5, kd=0.6, de=0.04),
]


def _r(x):
    return float("%.12g" % x)


def letters(pal):
    """letter -> (kind, kwargs) for one numeric palette.  Values are mutually incommensurate on purpose."""
    P = PALETTES[pal]
    kv, ki, de = P["kv"], P["ki"], P["de"]
    kr = P["kr"] * kv / ki
    kd = P["kd"] * kv
    kp = kv * ki
    V = P["V"]
    io3 = [_r(0.01 * ki), _r(0.1 * ki), _r(0.5 * ki)]
    io3z = [0.0, _r(0.1 * ki), _r(0.5 * ki)]
    vi2 = [_r(0.4 * V), _r(1.2 * V)]

    def planar(a, b, c):  # z = a + b*io/(0.5ki) + c*vi/V  on vi2 x io3z
        return [[_r(a + b * io / (0.5 * ki) + c * vi / V) for io in io3z] for vi in vi2]

    L = {
        "RL": ("RLoss", dict(rs=_r(0.7 * kr), rt=3.0)),
        "VLc": ("VLoss", dict(vdrop=_r(0.23 * kd), rt=1.5)),
        "VL1": ("VLoss", dict(vdrop={"vi": [V], "io": io3, "vdrop": [[_r(0.11 * kd), _r(0.19 * kd), _r(0.31 * kd)]]})),
        "VL2": ("VLoss", dict(vdrop={"vi": vi2, "io": io3z, "vdrop": planar(0.08 * kd, 0.2 * kd, 0.05 * kd)}, rt=0.5)),
        "CVc": ("Converter", dict(vo=_r(3.3 * kv), eff=_r(0.87 + de), iq=_r(1.3e-3 * ki), iis=_r(2e-4 * ki), rt=11.0)),
        "CV1": ("Converter", dict(vo=_r(2.5 * kv), eff={"vi": [V], "io": io3, "eff": [[_r(0.61 + de), _r(0.83 + de), _r(0.91 + de)]]},
                                  iq=_r(0.9e-3 * ki), iis=_r(1e-4 * ki))),
        "CV2": ("Converter", dict(vo=_r(2.8 * kv), eff={"vi": vi2, "io": io3z, "eff": planar(0.7 + de, 0.2, 0.05)}, iq=_r(0.7e-3 * ki), rt=2.0)),
        "CVb": ("Converter", dict(vo=_r(9.0 * kv), eff=_r(0.81 + de), iq=_r(2.1e-3 * ki))),
        "CVi": ("Converter", dict(vo=_r(-3.0 * kv), eff=_r(0.79 + de), iq=_r(1.1e-3 * ki), iis=_r(3e-4 * ki))),
        "LRc": ("LinReg", dict(vo=_r(1.8 * kv), vdrop=_r(0.31 * kd), ig=_r(1.7e-3 * ki), iis=_r(3e-4 * ki), rt=7.0)),
        "LR1": ("LinReg", dict(vo=_r(1.2 * kv), vdrop=_r(0.2 * kd), ig={"vi": [V], "io": io3z, "ig": [[_r(2e-4 * ki), _r(9e-4 * ki), _r(2.3e-3 * ki)]]})),
        "LR2": ("LinReg", dict(vo=_r(1.5 * kv), vdrop=_r(0.25 * kd), ig={"vi": vi2, "io": io3z, "ig": planar(1e-4 * ki, 2e-3 * ki, 1e-4 * ki)}, rt=1.0)),
        "LRd": ("LinReg", dict(vo=_r(4.9 * kv), vdrop=_r(0.41 * kd), ig=_r(0.6e-3 * ki))),
        "PSc": ("PSwitch", dict(rs=_r(0.19 * kr), ig=_r(0.4e-3 * ki), iis=_r(1e-5 * ki), rt=5.0)),
        "PS1": ("PSwitch", dict(rs=_r(0.07 * kr), ig={"vi": [V], "io": io3, "ig": [[_r(3e-5 * ki), _r(5e-5 * ki), _r(4e-5 * ki)]]}, iis=_r(2e-5 * ki))),
        "RDc": ("Rectifier", dict(vdrop=_r(0.29 * kd), rt=2.0)),
        "RD1": ("Rectifier", dict(vdrop={"vi": [V], "io": io3, "vdrop": [[_r(0.21 * kd), _r(0.27 * kd), _r(0.36 * kd)]]})),
        "RMc": ("Rectifier", dict(vdrop=0.0, rs=_r(0.11 * kr), ig=_r(0.5e-3 * ki), iq=_r(0.2e-3 * ki), rt=1.2)),
        "RM1": ("Rectifier", dict(vdrop=0.0, rs=_r(0.05 * kr), ig={"vi": [V], "io": io3, "ig": [[_r(4e-5 * ki), _r(6e-5 * ki), _r(9e-5 * ki)]]}, iq=_r(0.1e-3 * ki))),
        "MX": ("PMux", dict(rs=_r(0.13 * kr), ig=_r(0.3e-3 * ki), iis=_r(4e-5 * ki), rt=0.8)),
        "PL": ("PLoad", dict(pwr=_r(0.21 * kp), pwrs=_r(1e-3 * kp), rt=13.0, loss=False)),
        "PLx": ("PLoad", dict(pwr=_r(0.17 * kp), pwrs=_r(2e-3 * kp), rt=4.0, loss=True)),
        "IL": ("ILoad", dict(ii=_r(0.043 * ki), iis=_r(1e-4 * ki), rt=0.0, loss=False)),
        "ILx": ("ILoad", dict(ii=_r(0.031 * ki), iis=_r(2e-4 * ki), rt=6.0, loss=True)),
        "RO": ("RLoad", dict(rs=_r(97.0 * kr), rt=0.0, loss=False)),
        "ROx": ("RLoad", dict(rs=_r(61.0 * kr), rt=2.5, loss=True)),
    }
    # degenerate letters: exact zeros / ones / equalities, where a comparison operator or a special-cased branch decides
    L.update({
        "RL0": ("RLoss", dict(rs=0.0, rt=3.0)),
        "VL0": ("VLoss", dict(vdrop=0.0)),
        "CVe": ("Converter", dict(vo=_r(3.3 * kv), eff=1.0, iq=0.0, iis=0.0, rt=11.0)),
        "LRe": ("LinReg", dict(vo=_r(V - 0.5 * kd), vdrop=_r(0.5 * kd), ig=0.0)),      # vo == Vsource - vdrop exactly: the min() is a tie under the source
        "PS0": ("PSwitch", dict(rs=0.0, ig=0.0, iis=0.0)),
        "RM0": ("Rectifier", dict(vdrop=0.0, rs=0.0, ig=0.0, iq=0.0)),
        "MX0": ("PMux", dict(rs=0.0, ig=0.0)),
        "IL0": ("ILoad", dict(ii=0.0, rt=5.0)),
        "PL0": ("PLoad", dict(pwr=0.0, pwrs=0.0)),
        "RMq": ("Rectifier", dict(vdrop=0.0, rs=_r(0.05 * kr), ig=_r(1e-4 * ki), iq=_r(5e-3 * ki))),  # quiescent current ABOVE io+ig at light load
        "CVq": ("Converter", dict(vo=_r(3.3 * kv), eff=_r(0.9 + de), iq=_r(8e-3 * ki))),
        "ILu": ("ILoad", dict(ii=_r(1e-3 * ki))),
        "ILn": ("ILoad", dict(ii=5e-9)),   # a live nano-amp load (below numpy's default absolute tolerance)
        "ILp9": ("ILoad", dict(ii=1.1e-9, loss=True, rt=9.0)),   # ... whose POWER is below 1e-8 W as well
        # voltage-drop TABLES written with negative values (magnitudes, like every other drop): 1-D, planar 2-D, diode bridge
        "VLm": ("VLoss", dict(vdrop={"vi": [V], "io": io3, "vdrop": [[_r(-0.12 * kd), _r(-0.2 * kd), _r(-0.33 * kd)]]}, rt=1.0)),
        "VLm2": ("VLoss", dict(vdrop={"vi": vi2, "io": io3z, "vdrop": [[-x for x in row] for row in planar(0.07 * kd, 0.21 * kd, 0.04 * kd)]})),
        "RDm": ("Rectifier", dict(vdrop={"vi": [V], "io": io3, "vdrop": [[_r(-0.2 * kd), _r(-0.26 * kd), _r(-0.35 * kd)]]})),
        # the deprecated (still documented) iq= keyword of LinReg: the ground current given as constant / 1-D / 2-D table with inner key "iq"
        "LRq": ("LinReg", dict(vo=_r(1.9 * kv), vdrop=_r(0.3 * kd), iq=_r(2.3e-3 * ki))),
        "LRq1": ("LinReg", dict(vo=_r(1.3 * kv), vdrop=_r(0.2 * kd), iq={"vi": [V], "io": io3z, "iq": [[_r(3e-4 * ki), _r(1.1e-3 * ki), _r(2.9e-3 * ki)]]})),
        "LRq2": ("LinReg", dict(vo=_r(1.6 * kv), vdrop=_r(0.25 * kd), iq={"vi": vi2, "io": io3z, "iq": planar(2e-4 * ki, 3e-3 * ki, 2e-4 * ki)})),
    })
    return L


def micro_letters():
    """a 1 V / sub-milliamp regime with well-conditioned 2-D tables (vi rows 0.5 / 1.0 V, io axis 0 / 0.1 / 1 mA: steps = 1e-4 of the largest
    coordinate): currents move in steps of micro-amps from sweep to sweep, table slopes are hundreds per ampere."""
    vi, io = [0.5, 1.0], [0.0, 1e-4, 1e-3]
    pl = lambda a, b, c: [[_r(a + b * i / 1e-3 + c * (v - 0.5) / 0.5) for i in io] for v in vi]
    return {
        "CVu": ("Converter", dict(vo=0.6, eff={"vi": vi, "io": io, "eff": pl(0.5, 0.4, 0.05)}, iq=2e-6)),
        "VLu": ("VLoss", dict(vdrop={"vi": vi, "io": io, "vdrop": pl(0.01, 0.3, 0.02)})),
        "LRu": ("LinReg", dict(vo=0.45, vdrop=0.05, ig={"vi": vi, "io": io, "ig": pl(1e-6, 2e-4, 1e-6)})),
        "RLu": ("RLoss", dict(rs=120.0)),
        "PLu": ("PLoad", dict(pwr=1.7e-5)),
        "ILu3": ("ILoad", dict(ii=3.3e-5)),
        "ROu": ("RLoad", dict(rs=2.2e4)),
    }


SIG_MICRO = (["CVu", "VLu", "LRu", "RLu"], ["PLu", "ILu3", "ROu"])
SIG_ZERO = (["RL0", "VL0", "CVe", "LRe", "PS0", "RM0", "MX0", "CVc", "RMq", "CVq"], ["IL0", "PL0", "IL", "RO", "ILu", "ILn", "ILp9"])
SIG_FULL = (["RL", "VLc", "VL1", "VL2", "CVc", "CV1", "CV2", "CVb", "CVi", "LRc", "LR1", "LR2", "LRd", "PSc", "PS1",
             "RDc", "RD1", "RMc", "RM1", "MX"], ["PL", "PLx", "IL", "ILx", "RO", "ROx"])
SIG_MID = (["RL", "VL1", "CVc", "CV2", "LRc", "LRd", "PSc", "RDc", "RMc", "MX"], ["PL", "ILx", "RO"])
SIG_DEEP = (["RL", "CVc", "PSc", "LRc"], ["PL", "IL"])
SIG_NEGTAB = (["VLm", "VLm2", "RDm", "RL", "CVc", "LRq", "LRq1", "LRq2"], ["IL", "PL"])


def mirror_args(kind, args, pol):
    a = copy.deepcopy(args)
    if pol < 0 and "vo" in a and kind in ("Converter", "LinReg", "Source"):
        a["vo"] = -a["vo"]
    return a


# ------------------------------------------------------------------------------------------------
# canonical tree enumeration: tree = [letter, [children...]] with children sorted
# ------------------------------------------------------------------------------------------------
class Trees:
    def __init__(self, interior, leaf, max_one=("MX",)):
        self.I, self.Lf, self.max_one = list(interior), list(leaf), set(max_one)
        self._t, self._f = {}, {}

    def trees(self, n):
        if n in self._t:
            return self._t[n]
        if n == 1:
            res = [(l, ()) for l in self.I + self.Lf]
        else:
            res = [(l, f) for l in self.I for f in self.iter_forests(n - 1)]
        res = [t for t in res if self._ok(t)]
        self._t[n] = res
        return res

    def forests(self, n):
        if n in self._f:
            return self._f[n]
        out = []

        def rec(rem, acc):
            if rem == 0:
                out.append(tuple(acc))
                return
            for k in range(1, rem + 1):
                for t in self.trees(k):
                    if acc and (_key(t) < _key(acc[-1])):
                        continue
                    rec(rem - k, acc + [t])

        rec(n, [])
        out = sorted(set(out), key=lambda f: tuple(_key(t) for t in f))
        out = [f for f in out if self._okf(f)]
        self._f[n] = out
        return out

    def iter_forests(self, n):
        """Lazy, duplicate-free enumeration of canonical forests with n nodes (non-decreasing tree keys)."""
        def rec(rem, acc, lastkey, used):
            if rem == 0:
                yield tuple(acc)
                return
            for k in range(1, rem + 1):
                for t in self.trees(k):
                    kt = _key(t)
                    if lastkey is not None and kt < lastkey:
                        continue
                    u = used + sum(self._count(t, l) for l in self.max_one)
                    if u > 1:
                        continue
                    yield from rec(rem - k, acc + [t], kt, u)

        yield from rec(n, [], None, 0)

    def _count(self, t, l):
        return (1 if t[0] == l else 0) + sum(self._count(c, l) for c in t[1])

    def _ok(self, t):
        return all(self._count(t, l) <= 1 for l in self.max_one)

    def _okf(self, f):
        return all(sum(self._count(t, l) for t in f) <= 1 for l in self.max_one)


def _key(t):
    return (t[0], len(t[1]), tuple(_key(c) for c in t[1]))


def tree_size(f):
    return sum(1 + tree_size(t[1]) for t in f)


def tree_depth(f):
    return max([1 + tree_depth(t[1]) for t in f], default=0)


# ------------------------------------------------------------------------------------------------
# spec construction and the real System
# ------------------------------------------------------------------------------------------------
def spec_from_forest(forest, pal=0, pol=1, srs=0.0, src_vo=None, name="t", extra=None):
    """One source 'S' feeding the forest; names are <letter><preorder counter>."""
    L = dict(letters(pal))
    L.update(extra or {})
    V = PALETTES[pal]["V"] if src_vo is None else src_vo
    comps = [dict(n="S", k="Source", a=dict(vo=V * pol, rs=srs), p=[], g="", r="", pc=None, lim=None)]
    cnt = [0]

    def add(parent, t):
        cnt[0] += 1
        nm = "%s%d" % (t[0], cnt[0])
        kind, args = L[t[0]]
        comps.append(dict(n=nm, k=kind, a=mirror_args(kind, args, pol), p=[parent], g="", r="", pc=None, lim=None, l=t[0]))
        for c in t[1]:
            add(nm, c)

    for t in forest:
        add("S", t)
    return dict(name=name, comps=comps, phases=None)


def make_comp(c):
    kw = copy.deepcopy(c["a"])
    if c.get("lim") is not None:
        kw["limits"] = copy.deepcopy(c["lim"])
    return KINDS[c["k"]](c["n"], **kw)


def build(spec, phases_first=False):
    s = None
    if spec.get("phases") and phases_first:
        pass
    for c in spec["comps"]:
        comp = make_comp(c)
        if c["k"] == "Source":
            if s is None:
                s = System(spec["name"], comp, group=c.get("g", ""), rail=c.get("r", ""))
            else:
                s.add_source(comp, group=c.get("g", ""), rail=c.get("r", ""))
        else:
            if spec.get("hole_before") == c["n"]:   # a component is added and deleted right before this one: it re-uses the freed node index
                s.add_comp(spec["comps"][0]["n"], comp=C.ILoad("__hole", ii=0.001))
                s.add_comp(spec["comps"][0]["n"], comp=C.RLoss("__hole2", rs=1.0))
                s.del_comp("__hole2")
                s.del_comp("__hole")
            par = c["p"] if len(c["p"]) > 1 or c.get("plist") else c["p"][0]
            s.add_comp(par, comp=comp, group=c.get("g", ""), rail=c.get("r", ""))
    if spec.get("pc_first"):  # component configurations before the system phases are defined
        for c in spec["comps"]:
            if c.get("pc") is not None:
                s.set_comp_phases(c["n"], copy.deepcopy(c["pc"]))
    if spec.get("phases"):
        s.set_sys_phases(dict(spec["phases"]))
    if not spec.get("pc_first"):
        for c in spec["comps"]:
            if c.get("pc0") is not None:   # an EARLIER configuration of the same component: the later call replaces it entirely
                s.set_comp_phases(c["n"], copy.deepcopy(c["pc0"]))
        for c in spec["comps"]:
            if c.get("pc") is not None:
                pcv = copy.deepcopy(c["pc"])
                if spec.get("pc_type") and isinstance(pcv, dict):   # the table handed over as a dict SUBCLASS that never raises KeyError
                    import collections
                    pcv = collections.defaultdict(float, pcv) if spec["pc_type"] == "defaultdict" else collections.Counter(pcv)
                s.set_comp_phases(c["n"], pcv)
    if spec.get("bounce") and spec.get("phases"):
        # the system phases are re-defined with other names (and cleared) and then defined again as before: component configurations are kept
        s.set_sys_phases({"x_%s" % k: v for k, v in spec["phases"].items()})
        if spec["bounce"] == "clear":
            s.set_sys_phases({})
        s.set_sys_phases(dict(spec["phases"]))
    return s


def build_holes(spec, analyse=False):
    """Same structure as build(spec), but reached through an edit history that leaves a freed node index in the middle and
    re-uses another one (dummy loads are added and deleted along the way): node indices != construction positions."""
    from sysloss.components import ILoad
    comps = spec["comps"]
    s = None
    k = max(1, len(comps) // 2)
    root = comps[0]["n"]
    for j, c in enumerate(comps):
        comp = make_comp(c)
        if c["k"] == "Source":
            if s is None:
                s = System(spec["name"], comp, group=c.get("g", ""), rail=c.get("r", ""))
                s.add_comp(root, comp=ILoad("__dummy1", ii=0.001))
            else:
                s.add_source(comp, group=c.get("g", ""), rail=c.get("r", ""))
        else:
            par = c["p"] if len(c["p"]) > 1 or c.get("plist") else c["p"][0]
            s.add_comp(par, comp=comp, group=c.get("g", ""), rail=c.get("r", ""))
        if j == k - 1 or (j == 0 and k == 1):
            s.add_comp(root, comp=ILoad("__dummy2", ii=0.001))
            if analyse:  # an analysis in the MIDDLE of the edit history (anything it caches must not survive the edits that follow)
                try:
                    common.quiet_call(s.solve)
                    s.params()
                except (RuntimeError, ValueError):
                    pass
            s.del_comp("__dummy1")
    if "__dummy1" in s._g.attrs["nodes"]:
        s.del_comp("__dummy1")
    if "__dummy2" in s._g.attrs["nodes"]:
        s.del_comp("__dummy2")
    if spec.get("phases"):
        s.set_sys_phases(dict(spec["phases"]))
    for c in spec["comps"]:
        if c.get("pc") is not None:
            s.set_comp_phases(c["n"], copy.deepcopy(c["pc"]))
    return s


def resolve(spec):
    """name -> record with resolved parent names (designators may be rails) and children lists."""
    rails = {c["r"]: c["n"] for c in spec["comps"] if c.get("r") and c["k"] not in LOADS}
    d = {}
    for c in spec["comps"]:
        r = dict(c)
        r["parents"] = [p if p in d else rails.get(p, p) for p in c["p"]]
        r["children"] = []
        d[c["n"]] = r
    for c in spec["comps"]:
        for p in d[c["n"]]["parents"]:
            d[p]["children"].append(c["n"])
    return d


# ------------------------------------------------------------------------------------------------
# observation layer
# ------------------------------------------------------------------------------------------------
NUMCOLS = ["Vin (V)", "Vout (V)", "Iin (A)", "Iout (A)", "Power (W)", "Loss (W)", "Efficiency (%)",
           "Temp. rise (°C)", "Peak temp. (°C)", "24h energy (Wh)"]


def observe(df):
    """DataFrame of solve() -> {(phase, component): {column: value}} ; never keyed by row position."""
    cols = list(df.columns)
    out = {}
    recs = df.to_dict("records")
    for r in recs:
        ph = r.get("Phase", "")
        if ph is None or (isinstance(ph, float) and math.isnan(ph)):
            ph = ""
        key = (ph, r["Component"])
        if key in out:
            out.setdefault("__dups__", []).append(key)
            if out[key].get("Type", "") != "" and r.get("Type", "") == "":
                # a COMPONENT that bears the name of a summary row ("System total"): the key stays with the component, the summary row moves aside
                out[(ph, "\x00summary:" + str(r["Component"]))] = r
                continue
        out[key] = r
    out["__cols__"] = cols
    return out


def g(row, col):
    v = row.get(col, "")
    if v == "" or v is None:
        return 0.0
    return float(v)


def has(row, col):
    return col in row and row[col] != "" and row[col] is not None


# ------------------------------------------------------------------------------------------------
# reference laws
# ------------------------------------------------------------------------------------------------
def sgn(x):
    return (x > 0) - (x < 0)


def interp1(x, xs, ys):
    x = abs(x)
    xs = [abs(v) for v in xs]
    ys = [abs(v) for v in ys]
    if x <= xs[0]:
        return ys[0]
    if x >= xs[-1]:
        return ys[-1]
    for a, b, fa, fb in zip(xs, xs[1:], ys, ys[1:]):
        if a <= x <= b:
            return fa + (fb - fa) * (x - a) / (b - a)


def clamp(x, a, b):
    return max(a, min(b, x))


def par(p, io, vi):
    """Value of a constant / 1-D / planar 2-D parameter at (|io|, |vi|)."""
    if isinstance(p, dict):
        z = [k for k in p if k not in ("vi", "io")][0]
        if len(p["vi"]) == 1:
            return interp1(io, p["io"], p[z][0])
        x = clamp(abs(io), p["io"][0], p["io"][-1])
        y = clamp(abs(vi), p["vi"][0], p["vi"][-1])
        x0, x1 = p["io"][0], p["io"][-1]
        y0, y1 = p["vi"][0], p["vi"][-1]
        f00, f10, f01 = abs(p[z][0][0]), abs(p[z][0][-1]), abs(p[z][-1][0])   # tabulated values are magnitudes
        return f00 + (f10 - f00) * (x - x0) / (x1 - x0) + (f01 - f00) * (y - y0) / (y1 - y0)
    return abs(p)


def is_table(p):
    return isinstance(p, dict)


def active(rec, ph):
    pc = rec.get("pc")
    if not pc:
        return True
    return ph in pc


def eff_args(rec, ph):
    """Load arguments with the phase behaviour applied (statement of C06)."""
    a = rec["a"]
    k = rec["k"]
    pc = rec.get("pc")
    if k in LOADS and pc:
        a = dict(a)
        if ph in pc:
            a[{"PLoad": "pwr", "ILoad": "ii", "RLoad": "rs"}[k]] = pc[ph]
        elif k == "PLoad":
            a["pwr"] = a.get("pwrs", 0.0)
        elif k == "ILoad":
            a["ii"] = a.get("iis", 0.0)
    return a


def law(rec, vin, iout, ph="", mux_idx=0):
    """(Vout, Iin) required by the documented transfer law for (Vin, Iout) in phase ph."""
    k = rec["k"]
    a = eff_args(rec, ph)
    act = active(rec, ph)
    if k == "Source":
        if a["vo"] == 0 or not act:
            return 0.0, 0.0
        return a["vo"] - sgn(a["vo"]) * abs(a.get("rs", 0.0)) * iout, iout
    if vin == 0:
        return 0.0, 0.0
    av = abs(vin)
    if k == "PLoad":
        return 0.0, abs(a["pwr"]) / av
    if k == "ILoad":
        return 0.0, abs(a["ii"])
    if k == "RLoad":
        return 0.0, av / abs(a["rs"])
    if k == "RLoss":
        return vin - sgn(vin) * abs(a["rs"]) * iout, iout
    if k == "VLoss":
        return vin - sgn(vin) * par(a["vdrop"], iout, vin), iout
    if k == "Converter":
        if not act:
            return 0.0, abs(a.get("iis", 0.0))
        if iout == 0:
            return a["vo"], abs(a.get("iq", 0.0))
        return a["vo"], abs(a["vo"] * iout / (av * par(a["eff"], iout, vin)))
    if k == "LinReg":
        if not act:
            return 0.0, abs(a.get("iis", 0.0))
        v = min(abs(a["vo"]), max(av - abs(a.get("vdrop", 0.0)), 0.0))
        return sgn(a["vo"]) * v, iout + par(a.get("ig", a.get("iq", 0.0)), iout, vin)   # iq= is the deprecated spelling of ig=
    if k in ("PSwitch", "PMux"):
        if not act:
            return 0.0, abs(a.get("iis", 0.0))
        rs = a.get("rs", 0.0)
        if isinstance(rs, list):
            rs = rs[mux_idx]
        return sgn(vin) * (av - abs(rs) * iout), iout + par(a.get("ig", 0.0), iout, vin)
    if k == "Rectifier":
        if a.get("vdrop", 0.0) != 0:
            return abs(vin - sgn(vin) * 2 * par(a["vdrop"], iout, vin)), iout
        i = abs(a.get("iq", 0.0)) if iout == 0 else iout + par(a.get("ig", 0.0), iout, vin)
        return av - 2 * abs(a.get("rs", 0.0)) * iout, i
    raise KeyError(k)


def branch_tags(rec, vin, iout, ph=""):
    """Which non-default branch of the law was taken (for the non-triviality rule)."""
    k, a, t = rec["k"], rec["a"], []
    if vin == 0 and k != "Source":
        return ["dead"]
    if not active(rec, ph):
        t.append("inactive")
    for key in ("eff", "vdrop", "ig"):
        p = a.get(key)
        if isinstance(p, dict):
            ongrid = any(abs(abs(iout) - x) < 1e-12 for x in p["io"])
            t.append("table-%s" % ("grid" if ongrid else "offgrid"))
            if abs(iout) < p["io"][0] or abs(iout) > p["io"][-1]:
                t.append("table-clamped")
    if k == "LinReg" and abs(vin) - abs(a.get("vdrop", 0)) < abs(a["vo"]):
        t.append("dropout")
    if k in ("Converter", "Rectifier") and iout == 0:
        t.append("noload")
    if k == "Rectifier" and vin < 0:
        t.append("rectified")
    if len(rec.get("children", ())) >= 2:
        t.append("fanout")
    return t


# ------------------------------------------------------------------------------------------------
# phase configurations
# ------------------------------------------------------------------------------------------------
PH2 = {"a": 1.0, "b": 3.0}
PH3 = {"a": 1.0, "b": 3.0, "c": 0.5}
_PHMULT = {"a": 0.5, "b": 0.23, "c": 1.7}


def nonempty_subsets(names):
    out = []
    for r in range(1, len(names) + 1):
        out += [list(c) for c in itertools.combinations(names, r)]
    return out


def pc_options(comp, phases, full=True, extras=True):
    """All phase configurations of one component: None | every non-empty subset of the phases."""
    names = list(phases)
    subs = nonempty_subsets(names) if full else [[names[0]], [names[-1]]]
    k = comp["k"]
    if k in PHASE_LIST_KINDS:
        # a list naming only a phase the system does not define: the component is listed for no phase, i.e. inactive in all of them
        # ... and the dict form ({"a": True}): accepted by set_comp_phases for every kind, the keys are the active phases
        return [None] + subs + ([["zz"]] if (full and extras) else []) + ([{names[0]: True}] if extras else [])
    if k in LOADS:
        key = {"PLoad": "pwr", "ILoad": "ii", "RLoad": "rs"}[k]
        out = [None] + [{p: _r(abs(comp["a"][key]) * _PHMULT[p]) for p in s} for s in subs]
        if k != "RLoad" and extras:  # an explicit 0 for a phase is a configured value, not an absent phase (sleep value must NOT be used)
            z = {p: _r(abs(comp["a"][key]) * _PHMULT[p]) for p in names}
            z[names[0]] = 0.0
            out.append(z)
        if extras:  # a per-phase value written with a negative sign is a magnitude, like every constructor argument
            ng = {p: _r(abs(comp["a"][key]) * _PHMULT[p]) for p in names}
            ng[names[-1]] = -ng[names[-1]]
            out.append(ng)
        if k != "RLoad" and extras:
            if full:  # a table naming only an undefined phase: every defined phase is absent from it -> sleep value everywhere
                out.append({"zz": _r(abs(comp["a"][key]) * 0.77)})
        return out
    return [None]


def with_phases(spec, phases, assign):
    """copy of spec with system phases and per-component configs (assign: name -> pc)."""
    sp = copy.deepcopy(spec)
    sp["phases"] = dict(phases)
    for c in sp["comps"]:
        if assign.get(c["n"]) is not None:
            c["pc"] = assign[c["n"]]
    return sp


# ------------------------------------------------------------------------------------------------
# reference steady-state solver (damped Gauss-Seidel on the reference laws); used for family membership only
# ------------------------------------------------------------------------------------------------
SERIES = ("Source", "RLoss", "VLoss", "PSwitch", "PMux", "Rectifier")


def refsolve(spec, ph="", iters=4000, damp=0.6, tol=1e-13):
    """Returns (v, i, iout, converged, maxdrop) with v/i dicts by name; maxdrop = largest relative series drop."""
    d = resolve(spec)
    order = [c["n"] for c in spec["comps"]]
    v = {n: 0.0 for n in order}
    i = {n: 0.0 for n in order}
    io = {n: 0.0 for n in order}
    sel = {n: 0 for n in order}

    def feeder(n):
        ps = d[n]["parents"]
        if not ps:
            return None, 0
        if len(ps) > 1:
            for j, p in enumerate(ps):
                if v[p] != 0.0:
                    return p, j
            return None, 0
        return ps[0], 0

    def childsum(n):
        t = 0.0
        for c in d[n]["children"]:
            if len(d[c]["parents"]) > 1 and feeder(c)[0] != n:
                continue
            t += i[c]
        return t

    conv = False
    try:
        for it in range(iters):
            delta = 0.0
            for n in order:
                f, j = feeder(n)
                vin = v[f] if f is not None else 0.0
                io[n] = childsum(n)
                vo, _ = law(d[n], vin, io[n], ph, j)
                nv = v[n] + damp * (vo - v[n]) if it > 0 else vo
                delta = max(delta, abs(nv - v[n]))
                v[n] = nv
            for n in reversed(order):
                f, j = feeder(n)
                vin = v[f] if f is not None else 0.0
                io[n] = childsum(n)
                _, ii = law(d[n], vin, io[n], ph, j)
                ni = i[n] + damp * (ii - i[n])
                delta = max(delta, abs(ni - i[n]))
                i[n] = ni
            if not all(math.isfinite(x) for x in list(v.values()) + list(i.values())) or max(map(abs, i.values())) > 1e6:
                return v, i, io, False, float("inf")
            if delta < tol:
                conv = True
                break
    except (ZeroDivisionError, OverflowError):
        return v, i, io, False, float("inf")
    maxdrop = 0.0
    for n in order:
        k = d[n]["k"]
        if k in SERIES:
            f, j = feeder(n)
            vin = abs(d[n]["a"]["vo"]) if k == "Source" else (abs(v[f]) if f is not None else 0.0)
            if k == "Source" and not active(d[n], ph):
                continue
            if vin > 0:
                if k in ("PSwitch", "PMux") and not active(d[n], ph):
                    continue
                maxdrop = max(maxdrop, (vin - abs(v[n])) / vin)
    return v, i, io, conv, maxdrop


def move_leaf(s, spec, leaf, newparent):
    """delete the leaf `leaf` and add a component of the same name under `newparent` (same node / edge counts, freed index re-used);
    returns the spec of the edited structure (the moved leaf last)."""
    sp = copy.deepcopy(spec)
    lc = [c for c in sp["comps"] if c["n"] == leaf][0]
    s.del_comp(leaf)
    s.add_comp(newparent, comp=make_comp(lc), group=lc.get("g", ""))
    if lc.get("pc") is not None and sp.get("phases"):
        s.set_comp_phases(leaf, copy.deepcopy(lc["pc"]))
    lc["p"] = [newparent]
    sp["comps"] = [c for c in sp["comps"] if c["n"] != leaf] + [lc]
    return sp



def rejected_edits(s, spec):
    """Issue, on the live system, a menu of edits that the documented rules refuse (each wrapped: the caller carries on, as a user would).
    Returns the number of calls that were (unexpectedly) accepted; the structure described by `spec` must still be the one analysed."""
    from sysloss.components import PLoad, Source, RLoss
    d = resolve(spec)
    accepted = 0
    calls = []
    for n, rec in d.items():
        if rec["children"]:
            calls.append(lambda n=n: s.change_comp(n, comp=PLoad(n, pwr=0.5)))          # a load cannot have children
            if rec["k"] != "Source":
                calls.append(lambda n=n: s.change_comp(n, comp=Source(n + "_x", vo=1.0), rail="zz_free_rail"))   # refused late (a non-root cannot become a source), with a rail argument
        if rec["k"] != "Source":
            calls.append(lambda n=n: s.change_comp(n, comp=Source(n, vo=1.0)))          # only a source can become a source
            calls.append(lambda n=n: s.add_source(Source(n, vo=2.0)))                   # name in use
        else:
            calls.append(lambda n=n: s.change_comp(n, comp=RLoss(n, rs=1.0)))           # a source stays a source
        if rec["k"] in LOADS:
            calls.append(lambda n=n: s.add_comp(n, comp=RLoss("zz_" + n, rs=1.0)))      # loads feed nothing
        calls.append(lambda n=n, rec=rec: s.add_comp(n if rec["k"] not in LOADS else spec["comps"][0]["n"], comp=RLoss(n, rs=1.0)))   # name in use
        calls.append(lambda n=n: s.set_comp_phases(n, 5))                               # neither dict nor list
        if rec["k"] not in LOADS:   # replacement under the same name whose rail collides with another component's name
            other = [m for m in d if m != n][0] if len(d) > 1 else None
            if other is not None:
                cdef = [c for c in spec["comps"] if c["n"] == n][0]
                calls.append(lambda n=n, cdef=cdef, other=other: s.change_comp(n, comp=make_comp(cdef), rail=other))
    calls.append(lambda: s.del_comp("no such component"))
    calls.append(lambda: s.add_comp("no such parent", comp=RLoss("zz_orphan", rs=1.0)))
    calls.append(lambda: s.set_sys_phases({"only": 1.0}))
    n_edits = len(calls)
    # analyses that fail: unknown phase / component, no iteration budget, a battery model that raises after two steps
    calls.append(lambda: common.quiet_call(s.solve, phase="no such phase"))
    calls.append(lambda: common.quiet_call(s.rail_rep, phase="no such phase"))
    calls.append(lambda: common.quiet_call(s.solve, maxiter=0, vtol=1e-15, itol=1e-15))
    calls.append(lambda: common.quiet_call(s.tree, "no such component"))
    calls.append(lambda: common.quiet_call(s.plot_interp, "no such component"))
    src = spec["comps"][0]["n"]

    def _batt():
        n = [0]

        def df(t, i):
            n[0] += 1
            if n[0] >= 2:
                raise RuntimeError("battery model failed")
            return (0.009, 4.05, 0.21)
        import io as _io, contextlib as _cl
        with _cl.redirect_stderr(_io.StringIO()):
            s.batt_life(src, cutoff=0.5, pfunc=lambda: (0.01, 4.1, 0.2), dfunc=df)
    calls.append(_batt)
    for j, c in enumerate(calls):
        try:
            c()
            if j < n_edits:   # an analysis that happens to succeed (e.g. an all-dead system converges in one sweep) is no concern here
                accepted += 1
        except Exception:
            pass
    return accepted



def reload_negated(s, tag="neg"):
    """save the system, write every per-phase LOAD value of the document with a negative sign, and load it again (a hand-edited file / a file of an
    older tool): the loaded system must treat the values as magnitudes."""
    import os, json
    pth = os.path.join(common.workdir(tag), "neg.json")
    s.save(pth)
    doc = json.load(open(pth))
    for k_, v_ in doc["system"]["phase_conf"].items():
        if isinstance(v_, dict):
            doc["system"]["phase_conf"][k_] = {p_: -abs(x_) for p_, x_ in v_.items()}
    json.dump(doc, open(pth, "w"))
    return System.from_file(pth)



def build_shared_pair(spec):
    """two System objects built from the SAME component objects: A as build(spec) would, B after a dummy component (so that the shared objects sit at
    other node indices in B).  Returns (A, B, objects by name)."""
    objs = {c["n"]: make_comp(c) for c in spec["comps"]}
    def mk(shift):
        s = None
        for c in spec["comps"]:
            comp = objs[c["n"]]
            if c["k"] == "Source":
                if s is None:
                    s = System(spec["name"], comp, group=c.get("g", ""), rail=c.get("r", ""))
                    if shift:
                        s.add_comp(c["n"], comp=C.ILoad("__shift", ii=0.001))
                else:
                    s.add_source(comp, group=c.get("g", ""), rail=c.get("r", ""))
            else:
                par = c["p"] if len(c["p"]) > 1 or c.get("plist") else c["p"][0]
                s.add_comp(par, comp=comp, group=c.get("g", ""), rail=c.get("r", ""))
        if spec.get("phases"):
            s.set_sys_phases(dict(spec["phases"]))
        for c in spec["comps"]:
            if c.get("pc") is not None:
                s.set_comp_phases(c["n"], copy.deepcopy(c["pc"]))
        return s
    return mk(False), mk(True), objs

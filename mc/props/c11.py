"""C11 -- constructors reject unphysical parameters and normalise signs.
E4: per component kind the full product of sign choices over its magnitude parameters (scalar, list and table forms) -> the probe system must solve
identically to the all-positive variant and be physical; plus the complete reject menu of the statement -> ValueError, and a good menu -> accepted."""
import itertools, copy, math
from ..common import Run, Res, seed, quiet_call, close
from ..sysmodel import build, observe, g, KINDS, LOADS, resolve
from .. import phys
from .c03 import physical

PROP = "C11"
T1 = lambda z, vals: {"vi": [5.0], "io": [0.01, 0.1, 0.5], z: [list(vals)]}
T2 = lambda z, rows: {"vi": [2.0, 6.0], "io": [0.01, 0.1, 0.5], z: [list(r) for r in rows]}

# kind -> (fixed kwargs, {param: magnitude}) ; every subset of the magnitude params is given with a negative sign
SIGN = {
    "Source": (dict(vo=5.0), dict(rs=0.3)),
    "PLoad": (dict(), dict(pwr=0.2, pwrs=0.01, rt=5.0)),
    "ILoad": (dict(), dict(ii=0.1, iis=0.01, rt=5.0)),
    "RLoad": (dict(), dict(rs=40.0, rt=5.0)),
    "RLoss": (dict(), dict(rs=0.7, rt=5.0)),
    "VLoss": (dict(), dict(vdrop=0.3, rt=5.0)),
    "VLoss/t1": (dict(), dict(vdrop=T1("vdrop", [0.1, 0.2, 0.3]), rt=5.0)),
    "VLoss/t2": (dict(), dict(vdrop=T2("vdrop", [[0.1, 0.2, 0.3], [0.15, 0.25, 0.35]]))),
    "Converter": (dict(vo=3.3, eff=0.85), dict(iq=1e-3, iis=1e-4, rt=5.0)),
    "LinReg": (dict(vo=3.3), dict(vdrop=0.4, ig=1e-3, iis=1e-4, rt=5.0)),
    "PSwitch": (dict(), dict(rs=0.2, ig=1e-3, iis=1e-4, rt=5.0)),
    "PMux": (dict(), dict(rs=0.2, ig=1e-3, iis=1e-4, rt=5.0)),
    "PMux/list": (dict(), dict(rs=[0.2, 0.3], ig=1e-3, rt=5.0)),
    "Rectifier/mosfet": (dict(vdrop=0.0), dict(rs=0.2, ig=1e-3, iq=1e-4, rt=5.0)),
    "Rectifier/diode": (dict(), dict(vdrop=0.3, rt=5.0)),
    "Rectifier/diode-t1": (dict(), dict(vdrop=T1("vdrop", [0.1, 0.2, 0.3]))),
}


def neg(v):
    if isinstance(v, dict):
        z = [k for k in v if k not in ("vi", "io")][0]
        d = copy.deepcopy(v)
        d[z] = [[-x for x in row] for row in d[z]]
        return d
    if isinstance(v, list):
        return [-x for x in v]
    return -v


def probe_spec(kind, kwargs, src_v=5.0):
    comps = [dict(n="S", k="Source", a=dict(vo=src_v, rs=0.1), p=[], g="", r="")]
    if kind == "Source":
        comps = [dict(n="S", k="Source", a=kwargs, p=[], g="", r="")]
        comps.append(dict(n="L", k="ILoad", a=dict(ii=0.1), p=["S"], g="", r=""))
    elif kind in LOADS:
        comps.append(dict(n="X", k=kind, a=kwargs, p=["S"], g="", r=""))
    else:
        comps.append(dict(n="X", k=kind, a=kwargs, p=["S"], g="", r=""))
        comps.append(dict(n="L", k="ILoad", a=dict(ii=0.1), p=["X"], g="", r=""))
        comps.append(dict(n="L2", k="PLoad", a=dict(pwr=0.05), p=["X"], g="", r=""))
    return dict(name="c11", comps=comps, phases={"a": 1.0, "b": 2.0})


def solved(spec, res, tag):
    try:
        s = build(spec)
        # phase b: the probed element sleeps (where it supports that) so iis / pwrs are exercised too
        nm = "X" if any(c["n"] == "X" for c in spec["comps"]) else "S"
        k = [c for c in spec["comps"] if c["n"] == nm][0]["k"]
        if k in ("Converter", "LinReg", "PSwitch", "PMux"):
            s.set_comp_phases(nm, ["a"])
        elif k == "PLoad":
            s.set_comp_phases(nm, {"a": 0.2})
        elif k == "ILoad":
            s.set_comp_phases(nm, {"a": 0.1})
        df, _ = quiet_call(s.solve)
    except Exception as e:
        return ("EXC", type(e).__name__, str(e)[:80])
    return observe(df)


def check_sign(case):
    res = Res()
    key = case["key"]
    kind = key.split("/")[0]
    fixed, mags = SIGN[key]
    names = list(mags)
    base = dict(fixed, **mags)
    ref = solved(probe_spec(kind, base), res, "ref")
    if isinstance(ref, tuple):
        res.v(("C11.reference-probe-fails", key), str(ref))
        return res
    for mask in itertools.product((0, 1), repeat=len(names)):
        if not any(mask):
            continue
        kw = dict(fixed)
        for nme, m in zip(names, mask):
            kw[nme] = neg(mags[nme]) if m else copy.deepcopy(mags[nme])
        res.stats["evaluations"] += 1
        try:
            KINDS[kind]("probe", **copy.deepcopy(kw))
        except Exception as e:
            res.v(("C11.negative-sign-rejected", key, "+".join(n for n, m in zip(names, mask) if m), type(e).__name__), str(e))
            continue
        spec = probe_spec(kind, kw)
        o = solved(spec, res, "neg")
        negd = "+".join(n for n, m in zip(names, mask) if m)
        if isinstance(o, tuple):
            res.v(("C11.negative-sign-solve-fails", key, negd, o[1]), o[2])
            continue
        bad = None
        for k2, r in ref.items():
            if k2 in ("__cols__", "__dups__"):
                continue
            for col in ("Vin (V)", "Vout (V)", "Iin (A)", "Iout (A)", "Power (W)", "Loss (W)", "Efficiency (%)", "Temp. rise (°C)"):
                if not close(g(r, col), g(o[k2], col), 1e-9, 1e-12):
                    bad = (k2, col, g(r, col), g(o[k2], col))
                    break
            if bad:
                break
        if bad:
            res.v(("C11.sign-not-normalised", key, negd), "%s %s: magnitude %r, negative sign %r" % bad)
        # physicality of the accepted component
        sub = Res()
        d = resolve(spec)
        for ph in ("a", "b"):
            phys.check_phase(sub, spec, o, ph, 25.0, ("C02",), d)
        physical(sub, spec, o, ["a", "b"])
        for sig, det in sub.viol:
            if sig[0] in ("C02.loss-range", "C02.eff-range", "C03.invert", "C03.amplify"):
                res.v(("C11.unphysical", sig[0], key, negd), det)
        res.nontrivial = 1
    return res


def bad_tables(z):
    good = T1(z, [0.1, 0.2, 0.3]) if z != "eff" else T1(z, [0.5, 0.7, 0.9])
    g2 = T2(z, [[0.1, 0.2, 0.3], [0.15, 0.25, 0.35]]) if z != "eff" else T2(z, [[0.5, 0.6, 0.7], [0.55, 0.65, 0.75]])
    out = []
    for k in ("vi", "io", z):
        d = copy.deepcopy(good)
        del d[k]
        out.append(("missing-" + ("z" if k == z else k), d))
    d = copy.deepcopy(g2); d[z][1] = d[z][1][:2]; out.append(("ragged", d))
    d = copy.deepcopy(g2); d[z] = d[z][:1]; out.append(("rows-mismatch", d))
    d = copy.deepcopy(g2); d["io"] = d["io"][:2]; out.append(("cols-mismatch", d))
    d = copy.deepcopy(g2); d[z] = [list(r) for r in zip(*d[z])]; out.append(("transposed", d))   # right element count, wrong shape
    d = copy.deepcopy(good); d["io"] = [0.01, 0.5, 0.1]; out.append(("io-decreasing", d))
    d = copy.deepcopy(good); d["io"] = [0.01, 0.1, 0.1]; out.append(("io-equal", d))
    return out, [("t1", good), ("t2", g2)]


def reject_menu():
    """(label, kind, kwargs, must_reject)"""
    M = []
    import numpy as _np
    for e in (0, 0.0, -0.5, -1e-9, 1.0000001, 1.5, 2, float(_np.nextafter(1.0, 2.0)), 1.0 + 1e-12, 1.0 + 7e-10, 3 * 0.1 / 0.3 if 3 * 0.1 / 0.3 > 1 else 1.0 + 2e-16):
        M.append(("eff=%r" % e, "Converter", dict(vo=3.3, eff=e), True))
    for e in (1.0, 1, 0.5, 1e-6):
        M.append(("eff=%r" % e, "Converter", dict(vo=3.3, eff=e), False))
    for vals in ([0.5, 0.0, 0.9], [0.5, -0.7, 0.9], [0.5, 0.7, 1.01], [0.5, 0.7, 1.0 + 1e-12], [float(_np.nextafter(1.0, 2.0)), 0.7, 0.9]):
        M.append(("eff-table-entry %r" % vals, "Converter", dict(vo=3.3, eff=T1("eff", vals)), True))
        M.append(("eff-table2-entry %r" % vals, "Converter", dict(vo=3.3, eff=T2("eff", [[0.5, 0.6, 0.7], vals])), True))
    M.append(("eff-table-entry 1.0", "Converter", dict(vo=3.3, eff=T1("eff", [0.5, 0.7, 1.0])), False))
    for vo, vd in ((3.3, 3.3), (3.3, 5.0), (3.3, -3.3), (3.3, -5.0), (-3.3, 3.3), (-3.3, -4.0), (0.0, 0.0)):
        M.append(("vdrop>=|vo| (%r,%r)" % (vo, vd), "LinReg", dict(vo=vo, vdrop=vd), True))
    for vo, vd in ((3.3, 3.2999), (-3.3, 3.0), (3.3, 0.0), (-1.2, -0.5)):
        M.append(("vdrop<|vo| (%r,%r)" % (vo, vd), "LinReg", dict(vo=vo, vdrop=vd), False))
    for r in (0, 0.0, -0.0):
        M.append(("rload rs=%r" % r, "RLoad", dict(rs=r), True))
    M.append(("rload rs=1e-9", "RLoad", dict(rs=1e-9), False))
    carriers = [("Converter", "eff", dict(vo=3.3)), ("VLoss", "vdrop", {}), ("LinReg", "ig", dict(vo=3.3)), ("PSwitch", "ig", {}),
                ("PMux", "ig", {}), ("Rectifier", "ig", {}), ("Rectifier", "vdrop", {})]
    for kind, z, fixed in carriers:
        bad, good = bad_tables(z)
        for lab, t in bad:
            M.append(("%s %s table %s" % (kind, z, lab), kind, dict(fixed, **{z: t}), True))
        for lab, t in good:
            M.append(("%s %s table %s" % (kind, z, lab), kind, dict(fixed, **{z: t}), False))
        M.append(("%s %s table empty-dict" % (kind, z), kind, dict(fixed, **{z: {}}), True))
        M.append(("%s %s table empty-axes" % (kind, z), kind, dict(fixed, **{z: {"vi": [], "io": [], z: []}}), True))
        if z == "ig":
            M.append(("%s negative tabulated ig" % kind, kind, dict(fixed, ig=T1("ig", [1e-3, -1e-3, 2e-3])), True))
            M.append(("%s negative tabulated ig 2d" % kind, kind, dict(fixed, ig=T2("ig", [[1e-3, 1e-3, 2e-3], [1e-3, -1e-9, 2e-3]])), True))
            M.append(("%s zero tabulated ig" % kind, kind, dict(fixed, ig=T1("ig", [0.0, 1e-3, 2e-3])), False))
    base = {"Source": dict(vo=5.0), "PLoad": dict(pwr=0.1), "ILoad": dict(ii=0.1), "RLoad": dict(rs=10.0), "RLoss": dict(rs=1.0), "VLoss": dict(vdrop=0.1),
            "Converter": dict(vo=3.3, eff=0.9), "LinReg": dict(vo=3.3), "PSwitch": dict(), "PMux": dict(), "Rectifier": dict(vdrop=0.2)}
    for kind, kw in base.items():
        for lab, lim in (("non-list", {"vi": 5.0}), ("tuple", {"vi": (0.0, 5.0)}), ("short", {"ii": [1.0]}), ("long", {"pl": [0.0, 1.0, 2.0]}),
                         ("non-numeric", {"tp": [0.0, "hot"]}), ("none-entry", {"io": [None, 1.0]}),
                         ("second-entry-non-list", {"vi": [0.0, 5.5], "io": "invalid"}), ("second-entry-long", {"vo": [0.0, 3.6], "pl": [0.0, 1.0, 2.0]}),
                         ("last-entry-non-numeric", {"vi": [0.0, 5.5], "ii": [0.0, 1.0], "tp": ["a", 1.0]})):
            M.append(("%s limits %s" % (kind, lab), kind, dict(kw, limits=lim), True))
        for lab, lim in (("good", {"vi": [0.0, 5.0], "tp": [-40, 85]}), ("int", {"ii": [0, 1]}), ("empty", {}), ("neg", {"vo": [-1.0, -6.0]})):
            M.append(("%s limits %s" % (kind, lab), kind, dict(kw, limits=lim), False))
    for kind, fixed in (("PMux", {}), ("Rectifier", dict(vdrop=0.0))):
        for rs in (["a", 1.0], [0.1, None], [[0.1], 0.2], ["0.1"]):
            M.append(("%s rs list %r" % (kind, rs), kind, dict(fixed, rs=rs), True))
    M.append(("PMux rs list good", "PMux", dict(rs=[0.1, 0.2]), False))
    for rs in (["0.1", "0.2"], [0.1, "2e-1"], [0.1, "nan"]):
        M.append(("PMux rs list numeric-strings %r" % (rs,), "PMux", dict(rs=rs), True))
    # tables handed to LinReg through the deprecated iq= keyword (inner key "iq") are validated like ig= tables
    M.append(("LinReg iq-table negative", "LinReg", dict(vo=3.3, iq={"vi": [5.0], "io": [0.01, 0.1, 0.5], "iq": [[1e-3, -1e-3, 2e-3]]}), True))
    M.append(("LinReg iq-table io-decreasing", "LinReg", dict(vo=3.3, iq={"vi": [5.0], "io": [0.01, 0.5, 0.1], "iq": [[1e-3, 1e-3, 2e-3]]}), True))
    M.append(("LinReg iq-table rows-mismatch", "LinReg", dict(vo=3.3, iq={"vi": [2.0, 6.0], "io": [0.01, 0.1, 0.5], "iq": [[1e-3, 1e-3, 2e-3]]}), True))
    M.append(("LinReg iq-table good", "LinReg", dict(vo=3.3, iq={"vi": [5.0], "io": [0.01, 0.1, 0.5], "iq": [[1e-3, 1.5e-3, 2e-3]]}), False))
    M.append(("Rectifier rs str", "Rectifier", dict(vdrop=0.0, rs="0.1"), True))
    M.append(("Rectifier rs numeric-list (advertised: float | list)", "Rectifier", dict(vdrop=0.0, rs=[0.1, 0.2]), None))
    return M


def check_reject(case):
    res = Res()
    label, kind, kw, must = case["label"], case["kind"], case["kw"], case["must_reject"]
    res.stats["evaluations"] += 1
    try:
        with __import__("warnings").catch_warnings():
            __import__("warnings").simplefilter("ignore")
            KINDS[kind]("x", **copy.deepcopy(kw))
        out = "accepted"
    except ValueError:
        out = "ValueError"
    except Exception as e:
        out = type(e).__name__
    res.classes.add("%s:%s" % ("bad" if must else "good", out))
    if out == "accepted" and not must:
        # every accepted component must be usable: the probe system solves or raises a documented exception
        o = solved(probe_spec(kind, copy.deepcopy(kw)), res, "good")
        res.stats["evaluations"] += 1
        if isinstance(o, tuple) and o[1] not in ("RuntimeError", "ValueError"):
            res.v(("C11.accepted-but-unsolvable", kind, label.split(" (")[0], o[1]), "%s(%r): solve() -> %s %s" % (kind, kw, o[1], o[2]))
    if must and out != "ValueError":
        res.v(("C11.not-rejected", kind, label.split(" (")[0].split("=")[0] if kind in ("Converter", "LinReg", "RLoad") and "table" not in label and "limits" not in label else " ".join(label.split()[1:3]), out), "%s(%r) -> %s" % (kind, kw, out))
    if must is False and out != "accepted":
        res.v(("C11.good-rejected", kind, label, out), "%s(%r) -> %s" % (kind, kw, out))
    res.nontrivial = 1 if must else 0
    return res


def check_alias(case):
    """'no accepted component can show negative loss, efficiency above 100 % ... in any solved system': also not after the caller has edited, in
    place, the very table / list / limits objects he passed to the constructor (e.g. while preparing a variant that the constructor then rejects)."""
    res = Res()
    kind, key = case["kind"], case["key"]
    kw = copy.deepcopy(case["kw"])
    obj = kw[key]                      # the very object handed to the constructor
    comp = KINDS[kind]("X", **kw)      # no copy on our side: the constructor sees the caller's objects
    # the caller now scribbles unphysical values over his own objects
    if isinstance(obj, dict) and "io" in obj:
        z = [k for k in obj if k not in ("vi", "io")][0]
        for row in obj[z]:
            row[:] = [3.0 if z == "eff" else -2.0 * v for v in row]
    elif isinstance(obj, list):
        obj[:] = [-9.0 for _ in obj]
    elif isinstance(obj, dict):       # limits
        for k_ in list(obj):
            obj[k_][:] = [0.0, 1e-12]
    try:
        KINDS[kind]("Y", **kw)        # rejected where the statement says so; X is a finished component either way
    except Exception:
        pass
    spec = probe_spec(kind, {})
    from sysloss.system import System
    from sysloss.components import Source, ILoad, PLoad
    s = System("alias", Source("S", vo=5.0, rs=0.1))
    s.add_comp("S", comp=comp)
    if kind not in LOADS:
        s.add_comp("X", comp=ILoad("L", ii=0.1))
        s.add_comp("X", comp=PLoad("L2", pwr=0.05))
    res.stats["evaluations"] += 2
    try:
        df, _ = quiet_call(s.solve)
    except Exception:
        res.classes.add("alias:solve-raises")
        res.nontrivial = 1
        return res
    for r in df.to_dict("records"):
        if r["Component"] != "X":
            continue
        P, L, E, vin, vout = (float(r[c]) for c in ("Power (W)", "Loss (W)", "Efficiency (%)", "Vin (V)", "Vout (V)"))
        if L < -1e-7 or E > 100.0 + 1e-6 or L > P + 1e-7:
            res.v(("C11.unphysical-after-caller-edit", kind, key), "after the caller edited the %s object he had passed in: Power %r Loss %r Efficiency %r" % (key, P, L, E))
        if kind in ("VLoss", "PSwitch", "PMux", "Rectifier") and abs(vout) > abs(vin) + 1e-6:
            res.v(("C11.unphysical-after-caller-edit", kind, key, "amplifies"), "Vin %r Vout %r" % (vin, vout))
    res.nontrivial = 1
    res.classes.add("alias")
    return res


def check_case(case):
    if case["fam"] == "alias":
        return check_alias(case)
    return check_sign(case) if case["fam"] == "sign" else check_reject(case)


def gen_cases(tier):
    for key in SIGN:
        yield dict(fam="sign", key=key)
    for label, kind, kw, must in reject_menu():
        yield dict(fam="reject", label=label, kind=kind, kw=kw, must_reject=must)
    lim = {"vi": [0.0, 6.0], "ii": [0.0, 2.0], "tp": [-40.0, 90.0]}
    al = [("Converter", "eff", dict(vo=3.3, eff=T1("eff", [0.5, 0.7, 0.9]))), ("Converter", "eff", dict(vo=3.3, eff=T2("eff", [[0.5, 0.6, 0.7], [0.55, 0.65, 0.75]]))),
          ("VLoss", "vdrop", dict(vdrop=T1("vdrop", [0.1, 0.2, 0.3]))), ("VLoss", "vdrop", dict(vdrop=T2("vdrop", [[0.1, 0.2, 0.3], [0.15, 0.25, 0.35]]))),
          ("LinReg", "ig", dict(vo=3.3, ig=T1("ig", [1e-3, 2e-3, 3e-3]))), ("LinReg", "ig", dict(vo=3.3, ig=T2("ig", [[1e-3, 2e-3, 3e-3], [2e-3, 3e-3, 4e-3]]))),
          ("PSwitch", "ig", dict(rs=0.1, ig=T1("ig", [1e-3, 2e-3, 3e-3]))), ("PMux", "ig", dict(rs=0.1, ig=T2("ig", [[1e-3, 2e-3, 3e-3], [2e-3, 3e-3, 4e-3]]))),
          ("Rectifier", "vdrop", dict(vdrop=T1("vdrop", [0.1, 0.2, 0.3]))), ("Rectifier", "ig", dict(vdrop=0.0, rs=0.1, ig=T1("ig", [1e-3, 2e-3, 3e-3]))),
          ("PMux", "rs", dict(rs=[0.1, 0.2], ig=1e-3))]
    for kind, kw0 in (("Source", dict(vo=5.0)), ("PLoad", dict(pwr=0.1)), ("ILoad", dict(ii=0.1)), ("RLoad", dict(rs=50.0)), ("RLoss", dict(rs=1.0)), ("VLoss", dict(vdrop=0.1)),
                      ("Converter", dict(vo=3.3, eff=0.9)), ("LinReg", dict(vo=3.3)), ("PSwitch", dict()), ("PMux", dict()), ("Rectifier", dict(vdrop=0.2))):
        if kind != "Source":
            al.append((kind, "limits", dict(kw0, limits=copy.deepcopy(lim))))
    for kind, key, kw in al:
        yield dict(fam="alias", kind=kind, key=key, kw=kw)


def replay(doc):
    r = check_case(doc["case"])
    for sig, detail in r.viol[:10]:
        print("  ", sig, detail)
    return [s for s, _ in r.viol]


def main(tier):
    run = Run(PROP, tier, replay)
    run.map(check_case, gen_cases(tier), chunk=1, family="ctor")
    run.require("bad:ValueError" in run.classes and "good:accepted" in run.classes, "reject/accept classes missing")
    return run.finish(
        rule="E4: (a) for 16 kind/form variants covering all 11 kinds, EVERY non-empty subset of the magnitude parameters (resistance, current, power, drop, thermal resistance; "
             "scalar, list and table forms) given with a negative sign: accepted, probe system (2 phases, the element sleeping in one) solves identically to the magnitudes, Loss>=0, "
             "Eff<=100, passive |Vout|<=|Vin|; (b) the statement's reject menu (eff, dropout, zero load resistance, 9 malformed-table shapes x 7 table carriers, negative tabulated ig, "
             "9 malformed limits (single and multi-entry) x 11 kinds, non-numeric rs lists) -> ValueError, with the adjacent good values -> accepted. evaluations = constructor calls.",
        assumptions=["value menus are finite", "unlisted odd argument types are not constrained"])

"""C13 -- a component loaded from a TOML file equals the constructor call.
E4: per kind every subset of the optional keys x value forms (int / float scalars, list, 1-D / 2-D table where allowed) x [limits] present / absent;
differential oracle against Kind(name, **P, limits=L) through params(limits=True) and a solved probe system; every mandatory key removed -> KeyError;
every key given every wrong type -> ValueError (all kinds but LinReg)."""
import itertools, copy, os, tempfile, shutil, json
import toml
from ..common import workdir as _wd, cleanup_workdir as _cw, Run, Res, seed, quiet_call, VERIF
from ..sysmodel import KINDS, LOADS, observe
from sysloss.system import System
from sysloss.components import Source, ILoad, PLoad

PROP = "C13"
T1 = lambda z, vals: {"vi": [5.0], "io": [0.01, 0.1, 0.5], z: [list(vals)]}
T2 = lambda z, rows: {"vi": [2.0, 6.0], "io": [0.01, 0.1, 0.5], z: [list(r) for r in rows]}
IG_T = [1e-3, T1("ig", [1e-4, 5e-4, 2e-3]), T2("ig", [[1e-4, 5e-4, 2e-3], [2e-4, 6e-4, 3e-3]])]
# kind -> (section, mandatory {key: [forms]}, optional {key: [forms]})
SCHEMA = {
    # (forms after the first are alternatives: TOML integers, negative values, lists, tables, and the value that equals the documented DEFAULT / zero)
    "Source": ("source", {"vo": [5.0, 5, -12.0]}, {"rs": [0.3, 1, 0.0]}),
    "PLoad": ("pload", {"pwr": [0.2, 1, 0.0]}, {"pwrs": [0.01, 0.0], "rt": [5.0, 3, 0.0], "loss": [True, False]}),
    "ILoad": ("iload", {"ii": [0.1, 1, 0.4e-9]}, {"iis": [0.01, 1.2e-10, 0.0], "rt": [5.0, 0.0], "loss": [True, False]}),
    "RLoad": ("rload", {"rs": [40.0, 33]}, {"rt": [5.0, 0.0], "loss": [True, False]}),
    "RLoss": ("rloss", {"rs": [0.7, 1, 0.0]}, {"rt": [5.0, 2, 0.0]}),
    "VLoss": ("vloss", {"vdrop": [0.3, 1, T1("vdrop", [0.1, 0.2, 0.3]), T2("vdrop", [[0.1, 0.2, 0.3], [0.15, 0.25, 0.35]]), 0.0]}, {"rt": [5.0, 0.0]}),
    "Converter": ("converter", {"vo": [3.3, 3, -3.3], "eff": [0.85, T1("eff", [0.6, 0.8, 0.9]), T2("eff", [[0.6, 0.8, 0.9], [0.5, 0.7, 0.8]]), 1.0]},
                  {"iq": [1e-3, 0.35e-9, 0.0], "iis": [1e-4, 0.0], "rt": [5.0, 7, 0.0]}),
    "LinReg": ("linreg", {"vo": [3.3, 3]}, {"vdrop": [0.4, 0.0], "ig": IG_T + [0.0], "iq": [1.5e-3, 5.0e-9, -2.0e-9], "iis": [1e-4, 0.45e-9, 0.0], "rt": [5.0, 0.0]}),
    "PSwitch": ("pswitch", {}, {"rs": [0.2, 1, 0.0], "ig": IG_T + [0.0], "iis": [1e-4, 0.0], "rt": [5.0, 0.0]}),
    "PMux": ("pmux", {}, {"rs": [0.2, [0.2, 0.3], 1, 0.0], "ig": IG_T + [0.0], "iis": [1e-4, 0.0], "rt": [5.0, 0.0]}),
    "Rectifier": ("rectifier", {"vdrop": [0.0, 0.3, 0, T1("vdrop", [0.1, 0.2, 0.3])]}, {"rs": [0.2, 0.0], "ig": IG_T + [0.0], "iq": [1e-4, 0.0], "rt": [5.0, 0.0]}),
}
LIMITS = {"vi": [0.0, 4.0], "io": [0.0, 0.05], "pl": [0.0, 1e-4], "tp": [-40.0, 30.0]}
# limit pairs as users of negative rails write them (smaller magnitude first = descending), reversed pairs, TOML integers
LIMITS_ODD = [{"vi": [-3.0, -3.6], "vo": [-1.0, -6.0], "tp": [-40.0, 30.0]}, {"vi": [4.0, 0.5], "io": [0.05, 0.0], "tp": [30.0, -40.0]}, {"vi": [0, 4], "pl": [0, 1]}]
NAMES_ODD = ["limits", "<section>", "source", "x.y", "X Y"]
WRONG = {"int-for-float": 1, "str": "5.0", "bool": True, "list": [1.0, 2.0], "table": {"vi": [5.0], "io": [0.1, 0.2], "x": [[1.0, 2.0]]}, "int-for-bool": 1}


def allowed_types(kind, key):
    """the DOCUMENTED value types of a key (frozen here, not read from the implementation's own table: a loader that widens its table is a change of
    behaviour).  Numbers may be TOML integers or floats, except the efficiency (float or table); tables where the kind takes a table; a list for the
    per-input resistances of a PMux; booleans for 'loss'."""
    if kind == "LinReg":
        return None
    if key not in KINDS[kind]._cparams["params"]:
        raise KeyError(key)
    if key == "loss":
        return [bool]
    if key == "eff":
        return [float, dict]
    if key == "ig" or (key == "vdrop" and kind in ("VLoss", "Rectifier")):
        return [int, float, dict]
    if key == "rs" and kind in ("PMux", "Rectifier"):   # the Rectifier advertises float | list as well (see KF-07)
        return [int, float, list]
    return [int, float]


def workdir():
    return _wd()


def write_toml(section, params, limits, extra_tables=False, permute=False, inline=False):
    if permute:  # inner keys of a table parameter in another legal order (z, io, vi)
        params = {k: ({kk: v[kk] for kk in sorted(v, key=lambda x: {"vi": 2, "io": 1}.get(x, 0))} if isinstance(v, dict) else v) for k, v in params.items()}
    doc = {}
    if extra_tables:  # several component tables in ONE file: each kind reads its own
        doc["source"] = {"vo": 99.0, "rs": 7.0} if section != "source" else {"vo": params.get("vo", 1.0)}
        doc["rloss"] = {"rs": 77.0, "rt": 9.0}
        doc["pswitch"] = {"rs": 3.0, "iis": 0.5}
    doc[section] = params
    if limits is not None:
        doc["limits"] = limits
    path = os.path.join(workdir(), "c.toml")
    if inline:   # table parameters written as TOML inline tables:  ig = { vi = [...], io = [...], ig = [[...]] }
        lines = []
        for sec, body in doc.items():
            lines.append("[%s]" % sec)
            for k, v in body.items():
                if isinstance(v, dict):
                    lines.append("%s = { %s }" % (k, ", ".join("%s = %s" % (kk, json.dumps(vv)) for kk, vv in v.items())))
                else:
                    lines.append(toml.dumps({k: v}).strip())
        text = "\n".join(lines) + "\n"
    else:
        text = toml.dumps(doc)
    with open(path, "w") as f:
        f.write(text)
    return path


def probe(kind, comp, name="X"):
    if kind == "Source":
        s = System("p", comp)
        s.add_comp(name, comp=ILoad("L", ii=0.05))
    else:
        s = System("p", Source("S" if name != "S" else "S_", vo=5.0, rs=0.1))
        s.add_comp("S" if name != "S" else "S_", comp=comp)
        if kind not in LOADS:
            s.add_comp(name, comp=ILoad("L", ii=0.05))
            s.add_comp(name, comp=PLoad("L2", pwr=0.02))
    pr = s.params(limits=True).astype(str).to_dict("records")
    try:
        df, _ = quiet_call(s.solve)
        sv = df.astype(str).to_dict("records")
    except Exception as e:
        sv = ("EXC", type(e).__name__)
    return pr, sv


def check_seq(case):
    """ordered pair of kinds loaded in a fresh interpreter (class- / module-level loader state starts from scratch)."""
    import subprocess, sys, json as _json
    res = Res()
    env = dict(os.environ, SYSLOSS_REPO=__import__("mc.common", fromlist=["REPO"]).REPO)
    pr = subprocess.run([sys.executable, "-m", "mc.props.c13_seq", case["k1"], case["k2"], workdir()], cwd=VERIF, env=env, capture_output=True, text=True, timeout=600)
    res.stats["evaluations"] += 1
    line = [l for l in pr.stdout.splitlines() if l.startswith("C13SEQ")]
    if pr.returncode != 0 or not line:
        res.v(("HARNESS", "c13_seq"), (pr.stderr or pr.stdout)[-400:])
        return res
    for sig, det in _json.loads(line[0][6:]):
        res.v(tuple(sig), det)
    res.nontrivial = 1
    res.classes.add("sequence")
    return res


def check_case(case):
    if case.get("fam") == "seq":
        return check_seq(case)
    res = Res()
    kind = case["kind"]
    section, mand, opt = SCHEMA[kind]
    P = copy.deepcopy(case["P"])
    L = case["L"]
    fam = case["fam"]
    res.stats["evaluations"] += 1
    if fam == "equiv":
        path = write_toml(section, P, L, extra_tables=case.get("extra", False), permute=case.get("permute", False), inline=case.get("inline", False))
        nm = case.get("name", "X")
        if nm == "<section>":
            nm = section
        try:
            c1 = KINDS[kind].from_file(nm, fname=path)
        except Exception as e:
            res.v(("C13.loader-raises", kind, type(e).__name__) + (("name=" + case["name"],) if case.get("name") else ()), "P=%r L=%r: %s" % (P, L, e))
            return res
        kw = copy.deepcopy(P)
        if L is not None:
            kw["limits"] = copy.deepcopy(L)
        c2 = KINDS[kind](nm, **kw)
        a, b = probe(kind, c1, nm), probe(kind, c2, nm)
        if a[0] != b[0]:
            diff = [(k, x[k], y[k]) for x, y in zip(a[0], b[0]) for k in x if x[k] != y.get(k)]
            res.v(("C13.params-differ", kind, "+".join(sorted(set(d[0] for d in diff)))), "P=%r L=%r: %r" % (P, L, diff[:3]))
        if a[1] != b[1]:
            res.v(("C13.solve-differs", kind), "P=%r L=%r" % (P, L))
        if isinstance(a[1], tuple):
            res.v(("C13.probe-unsolvable", kind, a[1][1]), "P=%r" % (P,))
        absent = [k for k in opt if k not in P]
        res.nontrivial = 1 if (absent and len(absent) < len(opt)) else 0
        res.classes.add("equiv")
    elif fam == "missing":
        path = write_toml(section, P, L)
        try:
            KINDS[kind].from_file("X", fname=path)
            res.v(("C13.missing-key-accepted", kind, case["key"]), "P=%r" % (P,))
        except KeyError:
            res.classes.add("KeyError")
        except Exception as e:
            res.v(("C13.missing-key-wrong-exception", kind, case["key"], type(e).__name__), str(e))
        res.nontrivial = 1
    elif fam == "wrongtype":
        path = write_toml(section, P, L, inline=case.get("inline", False))
        if case.get("raw"):   # a TOML literal that toml.dumps cannot be asked for (date-time, inline table)
            txt = open(path).read().replace('"@RAW@"', case["raw"])
            open(path, "w").write(txt)
        try:
            KINDS[kind].from_file("X", fname=path)
            res.v(("C13.wrong-type-accepted", kind, case["key"], case["wt"]), "P=%r" % (P,))
        except ValueError:
            res.classes.add("ValueError")
        except Exception as e:
            res.v(("C13.wrong-type-wrong-exception", kind, case["key"], case["wt"], type(e).__name__), str(e))
        res.nontrivial = 1
    return res


def gen_cases(tier):
    for kind, (section, mand, opt) in SCHEMA.items():
        mkeys, okeys = list(mand), list(opt)
        base = {k: mand[k][0] for k in mkeys}
        # every subset of optional keys (first form), with and without limits
        for r in range(len(okeys) + 1):
            for sub in itertools.combinations(okeys, r):
                P = dict(base)
                for k in sub:
                    P[k] = opt[k][0]
                for L in (None, LIMITS):
                    yield dict(fam="equiv", kind=kind, P=P, L=L)
                if r in (0, len(okeys)):
                    yield dict(fam="equiv", kind=kind, P=P, L=LIMITS, extra=True)
        # odd limit pairs and component names that coincide with words of the file format
        Pfull = dict(base)
        Pfull.update({o: opt[o][0] for o in okeys})
        for L in LIMITS_ODD:
            yield dict(fam="equiv", kind=kind, P=Pfull, L=L)
            yield dict(fam="equiv", kind=kind, P=dict(base), L=L)
        for nm in NAMES_ODD:
            yield dict(fam="equiv", kind=kind, P=Pfull, L=LIMITS, name=nm)
            yield dict(fam="equiv", kind=kind, P=dict(base), L=None, name=nm)
            yield dict(fam="equiv", kind=kind, P=Pfull, L=LIMITS, name=nm, extra=True)
        # every alternative form of every key, alone and with all optionals present
        for k, forms in list(mand.items()) + list(opt.items()):
            for fv in forms[1:]:
                for full in (False, True):
                    P = dict(base)
                    if full:
                        P.update({o: opt[o][0] for o in okeys})
                    P[k] = fv
                    if kind == "Rectifier" and k == "vdrop" and fv in (0, 0.0) and not full:
                        pass
                    yield dict(fam="equiv", kind=kind, P=P, L=LIMITS if full else None)
                    if isinstance(fv, dict):
                        yield dict(fam="equiv", kind=kind, P=P, L=None, permute=True)
                        # a table that carries surplus keys spelled like OTHER parameters of the kind: they belong to the table, not to the component
                        P2 = copy.deepcopy(P)
                        for extra_k, extra_v in (("rt", 7.0), ("iq", 0.004), ("iis", 0.003), ("rs", 0.9)):
                            if extra_k in opt and extra_k not in P2:
                                P2[k][extra_k] = extra_v
                        if P2 != P:
                            yield dict(fam="equiv", kind=kind, P=P2, L=None)
                        if len(fv["vi"]) == 1:   # toml 0.10.2 itself cannot parse a multi-row nested array inside an inline table
                            yield dict(fam="equiv", kind=kind, P=P, L=LIMITS, inline=True)
        if tier != "quick":  # pairs of alternative forms
            allk = list(mand.items()) + list(opt.items())
            for (k1, f1), (k2, f2) in itertools.combinations(allk, 2):
                for a in f1[1:]:
                    for b in f2[1:]:
                        P = dict(base)
                        P.update({o: opt[o][0] for o in okeys})
                        P[k1], P[k2] = a, b
                        yield dict(fam="equiv", kind=kind, P=P, L=None)
        for k in mkeys:
            P = {o: opt[o][0] for o in okeys}
            P.update({m: base[m] for m in mkeys if m != k})
            yield dict(fam="missing", kind=kind, P=P, L=None, key=k)
        if kind != "LinReg":
            for k in mkeys + okeys:
                try:
                    ok = allowed_types(kind, k)
                except KeyError:  # the loader's type table has no entry for a documented parameter: the equivalence cases report it
                    continue
                for wt, val in WRONG.items():
                    if wt == "int-for-bool" and bool not in ok:
                        continue
                    if wt == "int-for-float" and (int in ok or bool in ok):
                        continue
                    if type(val) in ok:
                        continue
                    if wt == "int-for-bool" or True:
                        P = dict(base)
                        P[k] = val
                        yield dict(fam="wrongtype", kind=kind, P=P, L=None, key=k, wt=wt)
                for wt, raw in (("datetime", "1979-05-27T07:32:00Z"), ("date", "1979-05-27"), ("inline-table", "{ a = 1 }"), ("empty-inline-table", "{}"), ("empty-array", "[]")):
                    if wt.endswith("inline-table") and dict in ok:
                        continue
                    if wt == "empty-array" and list in ok:
                        continue
                    P = dict(base)
                    P[k] = "@RAW@"
                    yield dict(fam="wrongtype", kind=kind, P=P, L=None, key=k, wt=wt, raw=raw)
    yield from gen_seq(tier)


def gen_seq(tier):
    kinds = list(SCHEMA)
    for k1 in kinds:
        for k2 in kinds:
            yield dict(fam="seq", k1=k1, k2=k2, kind=k2, P={}, L=None)


def replay(doc):
    r = check_case(doc["case"])
    for sig, detail in r.viol[:10]:
        print("  ", sig, detail)
    return [s for s, _ in r.viol]


def main(tier):
    run = Run(PROP, tier, replay)
    try:
        run.map(check_case, gen_cases(tier), chunk=8, family="toml")
    finally:
        _cw()
    for c in ("equiv", "KeyError", "ValueError", "sequence"):
        run.require(c in run.classes, "class %s never observed" % c)
    return run.finish(
        rule="E4: for each of the 11 kinds: every subset of the optional keys (with / without a [limits] table); every alternative value form of every key (TOML integer, negative, "
             "list, 1-D and 2-D table where the kind allows it) alone and with all optional keys present (thorough: all pairs of alternative forms); each mandatory key removed; each key given "
             "each wrong TOML type (string, boolean, array, table, integer-for-boolean) that the type table excludes; plus all 121 ORDERED PAIRS of kinds, each in a fresh interpreter: load kind 1, then kind 2 with each mandatory key missing, complete with other limits, and from a re-written file of the same name. Differential oracle: params(limits=True) rows and the solve() table of a "
             "probe system, string-exact, against the constructor call. non-trivial = some optional key absent and some present / a rejection case.",
        assumptions=["TOML written with toml.dumps (homogeneous arrays only)", "LinReg excluded from the wrong-type menu as stated", "eff given as TOML integer not constrained"])

"""C18 -- batt_life() steps the battery with the solved current, phase by phase.
E3 environment-answer explorer: the battery callbacks are the environment.  Every answer sequence up to depth k over an answer menu (capacity step,
voltage step, impedance step) followed by each terminator (capacity -> 0, voltage -> cutoff, voltage -> below cutoff) is executed on the real
batt_life(), for each system x phase set x battery; the recorded callback arguments are compared with solve() of an equivalent FRESH system."""
import itertools, io, contextlib
from ..common import Run, Res, seed, quiet_call, close
from sysloss.system import System
from sysloss.components import Source, Converter, PLoad, RLoad, ILoad, LinReg, RLoss

PROP = "C18"
ANS = {"c": (0.12, 0.0, 0.0), "v": (0.03, -0.09, 0.0), "r": (0.02, 0.0, 0.05), "z": (0.02, 0.0, "zero"), "s": (0.0, 0.0, 0.0)}   # "s": the gauge reads the same  # seven steps of any kind keep the battery alive (7 x 0.09 V < 3.7 V - cutoff, 7 x 0.12 < 1)
TERM = {"Z": "capzero", "K": "vcut", "U": "vbelow"}
PHASES = {"none": None, "two": {"a": 10.0, "b": 25.0}, "three": {"a": 10.0, "b": 25.0, "c": 5.0},
          "blank": {"": 10.0, "b": 25.0}}   # set_sys_phases() accepts the empty string as a phase name: it is a phase like any other


GARBAGE = {"pfunc-inf": (float("inf"), 4.1, 0.7), "pfunc-nan": (float("nan"), 4.1, 0.7), "pfunc-short": (0.01, 4.1), "pfunc-none": None,
           "pfunc-str": ("0.01", "4.1", "0.7"), "pfunc-neg": (-1.0, 4.1, 0.7), "pfunc-huge": (1e300, 4.1, 0.7), "pfunc-low": (0.01, 1.0, 0.7)}


class Boom(Exception):
    pass


class Abort(BaseException):  # like KeyboardInterrupt: not an Exception subclass
    pass


def mksys(variant, V, R, phases, bpc=None, swapped=False):
    """variant A: battery B is the only source; variant B: two sources, the battery is the second one; variant C: a 1.82 W load directly on the battery."""
    if variant == "C":
        s = System("t", Source("B", vo=V, rs=R))
        s.add_comp("B", comp=PLoad("L", pwr=1.82, pwrs=0.5))
        if phases:
            names = list(phases)
            s.set_sys_phases(dict(phases))
            s.set_comp_phases("L", {names[0]: 1.82, names[-1]: 1.0})
        return s
    if variant == "M":   # a docking supply (active in the first phase only) and the battery behind a power mux: the battery idles while docked
        from sysloss.components import PMux
        s = System("t", Source("DOCK", vo=5.2, rs=0.05))
        s.add_source(Source("B", vo=V, rs=R))
        s.add_comp(["DOCK", "B"], comp=PMux("MX", rs=[0.05, 0.08], ig=1e-5))
        s.add_comp("MX", comp=Converter("C", vo=1.8, eff=0.9, iq=1e-4, iis=2e-5))
        s.add_comp("C", comp=PLoad("L", pwr=0.1, pwrs=1e-3))
        s.add_comp("MX", comp=RLoad("R", rs=200.0))
        if phases:
            names = list(phases)
            s.set_sys_phases(dict(phases))
            s.set_comp_phases("DOCK", [names[0]])
            s.set_comp_phases("L", {names[0]: 0.2, names[-1]: 0.05})
        else:
            s.change_comp("DOCK", comp=Source("DOCK", vo=0.0))
        return s
    if variant == "A":
        s = System("t", Source("B", vo=V, rs=R))
    else:
        s = System("t", Source("AUX", vo=12.0, rs=0.2))
        s.add_comp("AUX", comp=RLoss("RA", rs=1.0))
        s.add_comp("RA", comp=ILoad("LA", ii=0.02))
        s.add_source(Source("B", vo=V, rs=R))
    s.add_comp("B", comp=Converter("C", vo=1.8, eff=0.9, iq=1e-4, iis=2e-5))
    s.add_comp("C" if not swapped else "B", comp=PLoad("L", pwr=0.1, pwrs=1e-3))     # swapped: the two loads have changed places
    s.add_comp("B" if not swapped else "C", comp=RLoad("R", rs=200.0))
    if phases:
        names = list(phases)
        s.set_sys_phases(dict(phases))
        s.set_comp_phases("L", {names[0]: 0.2, names[-1]: 0.05})
        if len(names) > 2:
            s.set_comp_phases("C", [names[0], names[2]])
        if bpc:  # the battery itself is switched off in some phases: those phases still elapse, with zero current
            s.set_comp_phases("B", [names[j] for j in bpc])
    return s


def ibatt(variant, V, R, phases, ph, bpc=None, swapped=False):
    s = mksys(variant, V, R, phases, bpc, swapped=swapped)
    # the reference is solved TIGHTLY, so that only batt_life()'s own (default) solver tolerance enters the comparison
    df, _ = quiet_call(s.solve, phase=ph, vtol=1e-10, itol=1e-10) if ph else quiet_call(s.solve, vtol=1e-10, itol=1e-10)
    return float(df[df.Component == "B"]["Iout (A)"].iloc[0])


def run_seq(variant, phname, seq, cutoff=3.0, cap0=0.01, V0=3.7, R0=0.1, fault=None, bpc=None, alias=False, vdecl=5.0, pre_edit=False):
    phases = PHASES[phname]
    s = mksys(variant, vdecl, 0.3, phases, bpc)   # vdecl: the voltage the battery Source was DECLARED with (0.0 = a placeholder; the model supplies the real one)
    if pre_edit:
        # an analysis, then edits that keep the component count but change the wiring (the two loads change places; freed node indices are
        # re-used), then batt_life() without any analysis in between: it must deplete the battery with the currents of the EDITED structure
        try:
            quiet_call(s.solve)
        except (RuntimeError, ValueError):
            pass
        s.params()
        s.del_comp("L")
        s.del_comp("R")
        s.add_comp("C", comp=RLoad("R", rs=200.0))
        s.add_comp("B", comp=PLoad("L", pwr=0.1, pwrs=1e-3))
        if phases:
            names = list(phases)
            s.set_comp_phases("L", {names[0]: 0.2, names[-1]: 0.05})
    calls = []
    st = [cap0, V0, R0]
    idx = [0]
    npf = [0]

    def pf():
        npf[0] += 1
        if fault == "pfunc":
            raise Boom()
        if fault in GARBAGE:   # a model that answers nonsense: whatever batt_life() does with it, the battery gets its own vo / rs back
            return GARBAGE[fault]
        return st if alias else tuple(st)   # alias: the model hands out its own mutable state object every time

    def df(t, i):
        calls.append((t, float(i), st[1], st[2]))
        a = seq[idx[0]] if idx[0] < len(seq) else "Z"
        idx[0] += 1
        if a == "X":
            raise Boom()
        if a == "Y":
            raise Abort()
        if a == "B":      # the callback runs a complete (short) batt_life() on the SAME system and battery before it answers
            with contextlib.redirect_stderr(io.StringIO()):
                s.batt_life("B", cutoff=cutoff, pfunc=lambda: (0.002, 4.3, 0.77), dfunc=lambda t_, i_: (0.0, 4.3, 0.77))
            a = "c"
        if a in "GNSQ":   # the deplete callback answers nonsense at this call
            return {"G": None, "N": (float("nan"), float("nan"), float("nan")), "S": (st[0], st[1]), "Q": ("1", "2", "3")}[a]
        if a in TERM:
            if TERM[a] == "capzero":
                st[0] = 0.0
            elif TERM[a] == "vcut":
                st[1] = cutoff
            else:
                st[1] = cutoff - 0.1
        elif a == "H":  # a battery state that makes the solver raise (impedance far too high)
            st[2] = 1e4
        else:
            dc, dv, dr = ANS[a]
            st[0] -= dc * cap0
            st[1] += dv
            st[2] = 0.0 if dr == "zero" else st[2] + dr   # "z": the model reports an impedance of exactly 0
        return st if alias else tuple(st)

    exc = log = None
    with contextlib.redirect_stderr(io.StringIO()), contextlib.redirect_stdout(io.StringIO()):
        try:
            log = s.batt_life("B", cutoff=cutoff, pfunc=pf, dfunc=df)
        except Boom as e:
            exc = e
        except Abort as e:
            exc = e
        except Exception as e:
            exc = e
    return s, calls, log, exc, npf[0]


def check_case(case):
    res = Res()
    variant, phname, seq = case["variant"], case["phases"], case["seq"]
    cutoff, cap0 = 3.0, 0.01
    if case.get("bad_name"):
        s = mksys(variant, 5.0, 0.3, PHASES[phname])
        n = [0]

        def pf():
            n[0] += 1
            return (0.01, 3.7, 0.1)

        def df(t, i):
            n[0] += 1
            return (0.0, 3.7, 0.1)
        try:
            with contextlib.redirect_stderr(io.StringIO()):
                s.batt_life(case["bad_name"], cutoff=3.0, pfunc=pf, dfunc=df)
            res.v(("C18.bad-battery-accepted", case["bad_name"]), "")
        except ValueError:
            pass
        except Exception as e:
            res.v(("C18.bad-battery-exception", type(e).__name__), str(e))
        if n[0]:
            res.v(("C18.callback-before-validation",), "%d callback calls for battery %r" % (n[0], case["bad_name"]))
        res.nontrivial = 1
        return res
    bpc = case.get("bpc")
    kw = {}
    if case.get("dead0"):   # the probed state is already empty / at / below the cutoff: no deplete call at all, the log is the probed state alone
        V0 = {"cap0": 3.7, "vcut": 3.0, "vbelow": 2.5}[case["dead0"]]
        c0 = 0.0 if case["dead0"] == "cap0" else cap0
        s, calls, log, exc, npf = run_seq(variant, phname, "Z", cap0=c0 if c0 else 1e-300, V0=V0) if False else run_seq(variant, phname, "cZ", cap0=c0, V0=V0)
        if exc is not None:
            res.v(("C18.raised", type(exc).__name__, "dead-initial-state"), "%s" % exc)
            return res
        if calls:
            res.v(("C18.deplete-called-on-dead-battery", case["dead0"]), "%d deplete calls although the probed state is (cap %r, V %r), cutoff %r" % (len(calls), c0, V0, cutoff))
        if len(log) != 1 or npf != 1:
            res.v(("C18.log-length", "dead-initial-state"), "%d rows, %d probe calls" % (len(log), npf))
        res.nontrivial = 1
        res.classes.add("dead-initial")
        return res
    if case.get("cap0"):
        cap0 = case["cap0"]
    if case.get("slow"):  # a battery close to the voltage-collapse point: the solver needs many sweeps; the current must still be the converged one
        kw = dict(V0=3.6, R0=1.78, cutoff=1.0)
    if case.get("cap0"):
        kw = dict(kw, cap0=case["cap0"])
    s, calls, log, exc, npf = run_seq(variant, phname, seq, bpc=bpc, alias=case.get("alias", False), vdecl=case.get("vdecl", 5.0), pre_edit=case.get("pre_edit", False), **kw)
    if case.get("slow"):
        cutoff = 1.0
    res.stats["evaluations"] += 1
    res.stats["transitions"] += len(calls) + 1
    if exc is not None:
        res.v(("C18.raised", type(exc).__name__), "seq %s: %s" % (seq, exc))
        return res
    phases = PHASES[phname]
    pl = list(phases) if phases else [None]
    for j, (t, i, V, R) in enumerate(calls):
        ph = pl[j % len(pl)]
        ei = ibatt(variant, V, R, phases, ph, bpc, swapped=case.get("pre_edit", False))
        # batt_life iterates with the solver's default tolerance; close to the voltage-collapse point ("slow") a tolerance of 1e-5 in the voltages is
        # amplified ~20x in the current, so that family only tells a converged current from an unconverged one (which is off by per cents)
        if not close(i, ei, 1e-4 if not case.get("slow") else 1e-3, 1e-9):
            res.v(("C18.current", phname), "call %d (phase %s): got %r, fresh system with V=%r R=%r draws %r" % (j, ph, i, V, R, ei))
        et = phases[ph] if phases else 3.6 * cap0 / ei
        if not close(t, et, 1e-4 if not case.get("slow") else 1e-3, 1e-12):
            res.v(("C18.duration", phname), "call %d (phase %s): got %r expected %r" % (j, ph, t, et))
    if npf != 1:
        res.v(("C18.probe-count",), "pfunc called %d times" % npf)
    T, Cc, Vv, Rr = (log[c].tolist() for c in ("Time (s)", "Capacity (Ah)", "Voltage (V)", "Resistance (Ohm)"))
    if (T[0], Cc[0], Vv[0], Rr[0]) != ((0.0, cap0, 3.7, 0.1) if not case.get("slow") else (0.0, cap0, 3.6, 1.78)):
        res.v(("C18.initial-row",), "%r" % ((T[0], Cc[0], Vv[0], Rr[0]),))
    if not all(b > a for a, b in zip(T, T[1:])):
        res.v(("C18.time-not-increasing",), "%r" % T)
    if not all(c > 0 and v > cutoff for c, v in zip(Cc[1:], Vv[1:])):
        res.v(("C18.log-holds-dead-state",), "%r %r" % (Cc, Vv))
    # the body answers all keep the battery alive, so: one row per body answer + the initial row; the terminator is the last call
    if len(T) != len(seq) or len(calls) != len(seq):
        res.v(("C18.log-length",), "seq %s: %d rows, %d calls" % (seq, len(T), len(calls)))
    # times accumulate the durations handed to dfunc
    acc = 0.0
    for j in range(1, len(T)):
        acc += calls[j - 1][0]
        if not close(T[j], acc, 1e-9, 1e-12):
            res.v(("C18.time-accumulation",), "row %d time %r expected %r" % (j, T[j], acc))
            break
    if phases and len(calls) >= len(pl):
        res.nontrivial = 1
        res.classes.add("cycled:" + phname)
    if not phases and len(calls) >= 2:
        res.nontrivial = 1
    res.classes.add("end:" + seq[-1])
    return res


def gen_cases(tier):
    K = 5 if tier == "quick" else 7
    for variant in ("A", "B", "M"):
        for phname in PHASES:
            for k in range(0, K + 1):
                if variant == "B" and k > K - 1:
                    continue
                if variant == "M" and k > 4:
                    continue
                for body in itertools.product("cvr", repeat=k):
                    for end in "ZKU":
                        yield dict(variant=variant, phases=phname, seq="".join(body) + end)
                if k <= 3:
                    for body in itertools.product("cvrz", repeat=k):
                        if "z" in body:
                            yield dict(variant=variant, phases=phname, seq="".join(body) + "Z")
            if phname not in ("none", "blank"):  # battery with its own phase list (a proper subset of the phases)
                for bpc in ([0], [1]) if phname == "two" else ([0, 2], [1]):
                    for k in range(0, min(K, 4) + 1):
                        for body in itertools.product("cvr", repeat=k):
                            yield dict(variant=variant, phases=phname, seq="".join(body) + "Z", bpc=bpc)
            for k in range(0, 3):   # the model returns the SAME mutable object on every call; the log must hold the values of each step
                for body in itertools.product("cvr", repeat=k):
                    yield dict(variant=variant, phases=phname, seq="".join(body) + "Z", alias=True)
            for k in range(0, 4):   # battery declared with vo = 0 (placeholder); object with an edit history behind it
                for body in itertools.product("cvr", repeat=k):
                    yield dict(variant=variant, phases=phname, seq="".join(body) + "Z", vdecl=0.0)
                    if phname != "blank" and variant != "M":
                        yield dict(variant=variant, phases=phname, seq="".join(body) + "K", pre_edit=True)
            for k in range(1, 5):   # a gauge that reads the same for several steps in a row is not a reason to stop
                for body in itertools.product("cs", repeat=k):
                    if "ss" in "".join(body) or k <= 2:
                        yield dict(variant=variant, phases=phname, seq="".join(body) + "Z")
            for d0 in ("cap0", "vcut", "vbelow"):
                yield dict(variant=variant, phases=phname, seq="cZ", dead0=d0)
            for c0 in (100, 200.0, 99.999, 1e-4, 5):   # capacities around the Ah / mAh display switch (an int among them)
                for sq in ("Z", "cZ", "cvK"):
                    yield dict(variant=variant, phases=phname, seq=sq, cap0=c0)
            for bad in ("C", "L", "nope", "R"):
                yield dict(variant=variant, phases=phname, seq="", bad_name=bad)


def gen_slow():
    for phname in ("none", "two"):
        for seq in ("Z", "cZ", "ccZ", "cccZ"):
            yield dict(variant="C", phases=phname, seq=seq, slow=True)


def replay(doc):
    r = check_case(doc["case"])
    for sig, detail in r.viol[:10]:
        print("  ", sig, detail)
    return [s for s, _ in r.viol]


def main(tier):
    run = Run(PROP, tier, replay)
    run.map(check_case, itertools.chain(gen_cases(tier), gen_slow()), chunk=8, family="answers")
    for c in ("end:Z", "end:K", "end:U", "cycled:two", "cycled:three", "cycled:blank"):
        run.require(c in run.classes, "class %s never observed" % c)
    return run.finish(
        level="model_checking",
        rule="E3: all answer sequences over {capacity step, voltage step, impedance step, impedance -> exactly 0} of length 0..%d, each followed by every terminator {capacity->0, voltage==cutoff, voltage<cutoff}, "
             "x {no phases, 2 phases, 3 phases with per-phase loads and a converter active in 2 of 3} x {battery is the only source, battery is the second of two sources} x {battery always on, battery switched off in a subset of the phases}; plus non-source / "
             "unknown battery names. Oracle: every dfunc call receives the phase duration (3.6*cap0/I without phases) and the battery Iout of a FRESH system holding the battery's present (V,R) "
             "in that phase; pfunc called once; log = initial state + every live state, strictly increasing accumulated time, no dead state. states = executions, transitions = callback invocations. "
             "non-trivial = run that cycled through every phase (or made >=2 steps without phases)." % (5 if tier == "quick" else 7),
        assumptions=["callbacks are deterministic scripts", "one system shape per variant"])

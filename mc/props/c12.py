"""C12 -- save() / System.from_file() round-trips the whole system.
E1/E4: (a) per kind every subset of the optional parameters and every alternative parameter form in a probe system whose phases make every parameter
carry current; (b) every tree of the mid alphabet with rails, groups, by-rail attachment, limits and phase configurations; (c) every PMux input tuple
with every priority permutation; (d) the version gate menu.  Oracle: all reports of S and of from_file(save(S)) are equal (keyed, exact)."""
import itertools, copy, json, os, shutil
from ..common import workdir as _wd, cleanup_workdir as _cw, Run, Res, seed, quiet_call, VERIF
from ..sysmodel import (Trees, SIG_MID, spec_from_forest, with_phases, PH2, build, build_holes, LOADS, PHASE_LIST_KINDS, pc_options)
from ..muxsys import mux_spec, INPUT_OPTS
from ..reports import all_reports, diff_reports, save_doc
from .c13 import SCHEMA
from sysloss.system import System
import sysloss

PROP = "C12"
REPORTS = ["solve_energy", "rail_rep", "params", "phases", "tree"]
APPL_LIM = {"Source": {"io": [0.0, 0.01], "pl": [0.0, 1e-5]}, "PLoad": {"vi": [0.0, 1.0], "tp": [-10.0, 26.0]}, "ILoad": {"vi": [0.0, 1.0], "pi": [0.0, 1e-4]},
            "RLoad": {"ii": [0.0, 1e-4], "tr": [0.0, 0.1]}, "Converter": {"vi": [0.0, 1.0], "po": [0.0, 1e-4], "tp": [-40.0, 25.5]}}
ALL_LIM = {"vi": [0.0, 1.0], "vd": [0.0, 1e-3], "pl": [0.0, 1e-6], "tp": [-40.0, 25.2]}


INT_FORMS = [("Source", dict(vo=5, rs=1)), ("PLoad", dict(pwr=1, pwrs=0, rt=3)), ("ILoad", dict(ii=1, iis=0, rt=2)), ("RLoad", dict(rs=33, rt=1)),
             ("RLoss", dict(rs=1, rt=2)), ("RLoss", dict(rs=0, rt=0)), ("VLoss", dict(vdrop=1, rt=2)), ("VLoss", dict(vdrop=0)),
             ("Converter", dict(vo=3, eff=1, iq=0, iis=0, rt=2)), ("Converter", dict(vo=3, eff=1)), ("LinReg", dict(vo=3, vdrop=1, ig=0, iis=0, rt=2)),
             ("PSwitch", dict(rs=1, ig=0, iis=0, rt=2)), ("PMux", dict(rs=1, ig=0, iis=0, rt=2)), ("PMux", dict(rs=[1, 2])),
             ("Rectifier", dict(vdrop=1, rt=2)), ("Rectifier", dict(vdrop=0, rs=1, ig=0, iq=0, rt=2))]


def kind_spec(kind, P, with_lim):
    lim = (APPL_LIM.get(kind, ALL_LIM) if with_lim else None)
    comps = [dict(n="S", k="Source", a=dict(vo=5.0, rs=0.1), p=[], g="", r="", pc=None, lim=None)]
    if kind == "Source":
        comps = [dict(n="S", k="Source", a=P, p=[], g="g1", r="", pc=["a"], lim=lim)]
        comps.append(dict(n="L", k="ILoad", a=dict(ii=0.1), p=["S"], g="", r=""))
    elif kind in LOADS:
        pc = {"PLoad": {"a": 0.2}, "ILoad": {"a": 0.1}, "RLoad": {"a": 33.0}}[kind]
        comps.append(dict(n="X", k=kind, a=P, p=["S"], g="g1", r="", pc=pc, lim=lim))
    else:
        pc = ["a"] if kind in PHASE_LIST_KINDS else None
        comps.append(dict(n="X", k=kind, a=P, p=["S"], g="g1", r="RX", pc=pc, lim=lim))
        comps.append(dict(n="L", k="ILoad", a=dict(ii=0.05), p=["RX"], g="", r=""))
        comps.append(dict(n="L0", k="RLoad", a=dict(rs=1e5), p=["X"], g="g2", r=""))
    return dict(name="c12 %s" % kind, comps=comps, phases=dict(PH2))


def decorate(spec, variant):
    """rails / groups / limits / phase configs on a tree spec, deterministically from the variant number."""
    sp = copy.deepcopy(spec)
    rails = {}
    for j, c in enumerate(sp["comps"]):
        if c["k"] not in LOADS and (j + variant) % 2 == 0:
            c["r"] = "rail_%s" % c["n"]
            rails[c["n"]] = c["r"]
        c["g"] = ["", "alpha", "beta"][(j + variant) % 3]
        if (j + variant) % 2 == 1:
            c["lim"] = copy.deepcopy(APPL_LIM.get(c["k"], ALL_LIM))
            if variant == 3:  # a negative-rail window written in the rail's polarity: [-min, -max] is NOT ascending
                c["lim"] = {k: ([-v[0], -v[1]] if k != "tp" else v) for k, v in c["lim"].items()}
    if variant == 7:   # a NON-applicable limit next to the applicable ones (it is not saved, and it never warns: before and after the round trip alike)
        NA = {"Source": {"vi": [0.0, 1e-3]}, "PLoad": {"vo": [1.0, 2.0], "io": [1.0, 2.0]}, "ILoad": {"vo": [1.0, 2.0], "ii": [0.0, 1e-9]},
              "RLoad": {"vo": [1.0, 2.0], "po": [5.0, 6.0]}, "Converter": {"vd": [0.0, 1e-6]}}
        for c in sp["comps"]:
            c["lim"] = dict(copy.deepcopy(APPL_LIM.get(c["k"], ALL_LIM)), **copy.deepcopy(NA.get(c["k"], {})))
    if variant == 6:   # one-sided limits: one bound moved, the other left at (or beyond) the documented default; negative spelling of a lower bound
        for c in sp["comps"]:
            c["lim"] = {k: ([v[0], 1.0e6] if k != "tp" else [-20.0, 1.0e6]) for k, v in copy.deepcopy(APPL_LIM.get(c["k"], ALL_LIM)).items()}
            first = sorted(c["lim"])[0]
            c["lim"][first] = [-0.25, 2.0e6] if first != "tp" else [0.0, 1.0e6]
    if variant == 5:   # open-ended limits: +/- infinity is a legal bound (written as Infinity in the file)
        for c in sp["comps"]:
            c["lim"] = {k: ([v[0], float("inf")] if k != "tp" else [float("-inf"), v[1]]) for k, v in copy.deepcopy(APPL_LIM.get(c["k"], ALL_LIM)).items()}
    if variant % 2 and variant != 5:
        for c in sp["comps"]:
            c["p"] = [rails.get(p, p) for p in c["p"]]
    assign = {}
    for j, c in enumerate(sp["comps"]):
        opts = pc_options(c, PH2, full=False)
        if len(opts) > 1 and (j + variant) % 2 == 0:
            assign[c["n"]] = opts[1 + (j % (len(opts) - 1))]
    if variant == 4:  # component phase configurations WITHOUT system phases (not defined yet / cleared): they must survive the round trip
        out = with_phases(sp, PH2, assign)
        out["phases"] = None
        return out
    return with_phases(sp, PH2, assign) if variant != 2 else sp


def roundtrip(res, s, tag):
    try:
        doc, path = save_doc(s, tag)
    except Exception as e:   # save() of a system the editing calls accepted never raises
        res.v(("C12.save-raises", type(e).__name__), str(e)[:200])
        return None, None, None
    try:
        s2, _ = quiet_call(System.from_file, path)
    except Exception as e:
        res.v(("C12.from_file-raises", type(e).__name__), str(e))
        return None, doc, path
    return s2, doc, path


def check_case(case):
    res = Res()
    fam = case["fam"]
    if fam == "kind":
        spec = kind_spec(case["kind"], copy.deepcopy(case["P"]), case["lim"])
    elif fam == "tree":
        spec = decorate(spec_from_forest(case["f"], case["pal"], case.get("pol", 1), 0.37), case["variant"])
    elif fam == "huge":
        # no user limits anywhere, magnitudes beyond the built-in bounds: the warnings of the original and of the reloaded system are the same
        V, kind, load = case["V"], case["kind"], case["load"]
        comps = [dict(n="S", k="Source", a=dict(vo=V, rs=0.0), p=[], g="", r="", pc=None, lim=None)]
        mid_ = {"none": None, "Converter": dict(vo=V / 2, eff=0.9), "LinReg": dict(vo=V / 2), "PSwitch": dict(rs=1e-3), "RLoss": dict(rs=1e-3), "VLoss": dict(vdrop=1.0),
                "PMux": dict(rs=1e-3), "Rectifier": dict(vdrop=1.0)}[kind]
        par = "S"
        if mid_ is not None:
            comps.append(dict(n="X", k=kind, a=mid_, p=["S"], g="", r="", pc=None, lim=None, plist=(kind == "PMux")))
            par = "X"
        la = {"PLoad": dict(pwr=case["mag"]), "ILoad": dict(ii=case["mag"] / (V / 2)), "RLoad": dict(rs=(V / 2) ** 2 / case["mag"])}[load]
        comps.append(dict(n="L", k=load, a=la, p=[par], g="", r="", pc=None, lim=None))
        spec = dict(name="c12 huge", comps=comps, phases=None)
    elif fam == "mux":
        spec = mux_spec([tuple(x) for x in case["inputs"]], case["pal"], case["rs_list"], rails=case["rails"], by_rail=case["rails"], order=case["order"], below=case.get("below", "std"))
    elif fam == "names":   # names that coincide with keys of the file format
        spec = kind_spec("Converter", dict(vo=3.3, eff=0.9), True)
        ren = {"S": case["source"], "X": case["comp"]}
        for c in spec["comps"]:
            c["n"] = ren.get(c["n"], c["n"])
            c["p"] = [ren.get(q, q) for q in c["p"]]
    elif fam == "e2seed":   # the seed states of the edit explorer (PMux at node index 0, freed indices, by-rail mux, hand-over, blank names ...)
        from .. import e2
        s, _g = e2.replay(case["seed"], case.get("hist", []))
        a = all_reports(s, REPORTS)
        s2, doc, path = roundtrip(res, s, "e2")
        if s2 is not None:
            for rep, d in diff_reports(a, all_reports(s2, REPORTS), 1e-9, 1e-12)[:4]:
                res.v(("C12.roundtrip-differs", rep, "e2seed", case["seed"]), "%s" % d)
        res.nontrivial = 1
        res.classes.add("e2seed")
        return res
    elif fam == "oldformat":
        # files in the layout of release 1.0.x (no "groups" / "rails" tables, version 1.0.0), two of them loaded one after the other in one process
        from .. import e2
        for sd in case["seeds"]:
            s, _g = e2.replay(sd, [])
            a = all_reports(s, REPORTS)
            doc, path = save_doc(s, "of")
            doc["system"].pop("groups", None)
            doc["system"].pop("rails", None)
            doc["system"]["version"] = "1.0.0"
            with open(path, "w") as f:
                json.dump(doc, f)
            try:
                s2, _ = quiet_call(System.from_file, path)
                for rep, d in diff_reports(a, all_reports(s2, REPORTS), 1e-9, 1e-12)[:3]:
                    res.v(("C12.old-format-file-differs", rep, sd), "%s" % d)
                # the loaded system can be edited like any other (its registries are its own)
                from sysloss.components import RLoss
                s2.add_comp(list(s2._g.attrs["nodes"])[0], comp=RLoss("zz_new", rs=1.0), group="gX", rail="rX")
                s2.del_comp("zz_new")
                for rep, d in diff_reports(a, all_reports(s2, REPORTS), 1e-9, 1e-12)[:3]:
                    res.v(("C12.old-format-file-after-edit-differs", rep, sd), "%s" % d)
            except Exception as e:
                res.v(("C12.old-format-file-raises", type(e).__name__, sd), str(e)[:200])
        res.nontrivial = 1
        res.classes.add("oldformat")
        return res
    elif fam == "version":
        if case.get("mux"):
            spec = mux_spec([("S", "live"), ("SC", "live"), ("SH", "inact-reg")], 0, True, rails=False, by_rail=False, order=[2, 0, 1])
        else:
            spec = kind_spec("Converter", dict(vo=3.3, eff=0.9), True)
            spec["comps"][0]["pc"] = ["a"]     # the source, the converter and a load carry phase configurations
    s = build_holes(spec) if case.get("holes") else build(spec)
    if case.get("delete"):   # the intermediate element of one mux input is deleted (del_childs=False): its feeder takes its slot; THEN the system is saved
        from .c05 import spec_without
        s.del_comp(case["delete"], del_childs=False)
        spec = spec_without(spec, case["delete"])
        res.classes.add("deleted-input")
    if case.get("remux"):   # an analysis, then the mux is deleted and re-added with reversed priority, THEN saved
        from ..muxsys import apply_remux
        try:
            quiet_call(s.solve)
        except (RuntimeError, ValueError):
            pass
        s.params()
        spec = apply_remux(s, spec)
        res.classes.add("remux")
    res.stats["transitions"] += len(spec["comps"]) + 2
    if case.get("holes"):
        res.classes.add("edited-system")
    if fam == "version":
        doc, path = save_doc(s, "v")
        cur = [int(x) for x in sysloss.__version__.split(".")[:3]]
        menu = [("same", cur, True), ("older-patch", [cur[0], cur[1], max(cur[2] - 1, 0)], True), ("older-minor", [cur[0], max(cur[1] - 1, 0), 99], True),
                ("older-major", [max(cur[0] - 1, 0), 99, 99], True), ("newer-patch", [cur[0], cur[1], cur[2] + 1], False),
                ("newer-minor", [cur[0], cur[1] + 1, 0], False), ("newer-major", [cur[0] + 1, 0, 0], False)]
        for label, ver, ok in menu:
            doc2 = copy.deepcopy(doc)
            doc2["system"]["version"] = ".".join(map(str, ver))
            with open(path, "w") as f:
                json.dump(doc2, f)
            try:
                sv, _ = quiet_call(System.from_file, path)
                out = "loaded"
                # a file of the same or an older release loads into the SAME system
                for rep, d in diff_reports(all_reports(s, REPORTS), all_reports(sv, REPORTS), 1e-9, 1e-12)[:3]:
                    res.v(("C12.older-version-file-differs", label, rep), "file labelled %s: %s" % (doc2["system"]["version"], d))
            except ValueError:
                out = "ValueError"
            except Exception as e:
                out = type(e).__name__
            if (out == "loaded") != ok or (not ok and out != "ValueError"):
                res.v(("C12.version-gate", label, out), "file version %s, library %s" % (doc2["system"]["version"], sysloss.__version__))
            res.classes.add("version:%s:%s" % (label, out))
        res.nontrivial = 1
        return res
    REPS = REPORTS if case.get("variant") != 7 else [r_ for r_ in REPORTS if r_ != "params"]   # params(limits=True) shows a non-applicable limit only before the round trip (by design)
    if case.get("remux"):   # save FIRST (nothing may refresh the object's caches between the edit and save()), analyse afterwards
        s2, doc, path = roundtrip(res, s, "r")
        a = all_reports(s, REPS)
    else:
        a = all_reports(s, REPS)
        s2, doc, path = roundtrip(res, s, "r")
    if isinstance(a["solve_energy"], tuple):
        res.classes.add("original-unsolvable")
    if s2 is None:
        if fam == "names":
            res.viol = [(("C12.format-key-as-name", "source=%s" % case["source"], "comp=%s" % case["comp"]) + sig, det) for sig, det in res.viol]
        return res
    b = all_reports(s2, REPS)
    for rep, d in diff_reports(a, b, 1e-9, 1e-12)[:6]:  # sums are taken in row order, which a reload may change
        what = __import__("re").sub(r"^\(.*?\)\s*", "", d).split(":")[0][:40]
        kinds = case.get("kind", fam)
        res.v(("C12.roundtrip-differs", rep, kinds, what), "%s" % d)
    # a second generation must be a fixed point of save()
    if case.get("resave"):
        # the SAME object is edited after its first save (limits of one component changed through change_comp) and saved again
        from ..sysmodel import make_comp
        tgt = [c for c in spec["comps"] if c["k"] != "Source"][0]
        newc = copy.deepcopy(tgt)
        newc["lim"] = {"vi": [0.0, 0.123], "tp": [-5.0, 26.5]} if tgt["k"] not in ("Source",) else {"io": [0.0, 1e-4]}
        ch = [c["n"] for c in spec["comps"] if tgt["n"] in c["p"] or tgt.get("r") in c["p"]]
        try:
            s.change_comp(tgt["n"], comp=make_comp(newc), group=tgt.get("g", ""), rail=tgt.get("r", ""))
            if tgt.get("pc") is not None and spec.get("phases"):
                s.set_comp_phases(tgt["n"], copy.deepcopy(tgt["pc"]))
            a2 = all_reports(s, REPORTS)
            s4, _, _ = roundtrip(res, s, "rs")
            if s4 is not None:
                for rep, d in diff_reports(a2, all_reports(s4, REPORTS), 1e-9, 1e-12)[:4]:
                    what = __import__("re").sub(r"^\(.*?\)\s*", "", d).split(":")[0][:40]
                    res.v(("C12.roundtrip-differs-after-edit", rep, what), "%s" % d)
                res.classes.add("resave")
        except ValueError:
            res.classes.add("resave-edit-rejected")
    if fam == "names":
        res.viol = [(("C12.format-key-as-name", "source=%s" % case["source"], "comp=%s" % case["comp"]) + sig, det) for sig, det in res.viol]
    s3, doc3, _ = roundtrip(res, s2, "r2")
    if s3 is not None and json.dumps(doc3, sort_keys=True) != json.dumps(save_doc(s2, "r3")[0], sort_keys=True):
        res.v(("C12.save-not-deterministic",), "")
    res.stats["traces"] += 1
    res.nontrivial = 1 if not isinstance(a["solve_energy"], tuple) else 0
    res.classes.add(fam)
    return res


def gen_cases(tier):
    pal = seed() % 3
    for kind, (section, mand, opt) in SCHEMA.items():
        okeys = list(opt)
        for mvals in itertools.product(*[mand[k] for k in mand]):
            base = dict(zip(mand, mvals))
            for r in range(len(okeys) + 1):
                for sub in itertools.combinations(okeys, r):
                    P = dict(base)
                    for k in sub:
                        P[k] = opt[k][0]
                    if mvals == tuple(mand[k][0] for k in mand) or r in (0, len(okeys)):
                        yield dict(fam="kind", kind=kind, P=P, lim=bool(r % 2))
        for k, forms in opt.items():
            for fv in forms[1:]:
                P = {m: mand[m][0] for m in mand}
                P.update({o: opt[o][0] for o in okeys})
                P[k] = fv
                yield dict(fam="kind", kind=kind, P=P, lim=True)
    # every numeric parameter written as a Python int (JSON integer in the file), incl. the lossless converter eff=1
    for kind, P in INT_FORMS:
        for lim in (False, True):
            yield dict(fam="kind", kind=kind, P=P, lim=lim)
    mid = Trees(*SIG_MID)
    for n in ((1, 2) if tier == "quick" else (1, 2, 3)):
        for f in mid.iter_forests(n):
            for variant in (0, 1, 2, 3):
                yield dict(fam="tree", f=f, pal=pal, variant=variant, pol=-1 if variant == 3 else 1)
            # the same structure reached through an edit history that frees and re-uses node indices (save() walks the graph by index)
            yield dict(fam="tree", f=f, pal=pal, variant=0, pol=1, holes=True)
            yield dict(fam="tree", f=f, pal=pal, variant=4, pol=1)
            yield dict(fam="tree", f=f, pal=pal, variant=5, pol=1)
            yield dict(fam="tree", f=f, pal=pal, variant=6, pol=1)
            yield dict(fam="tree", f=f, pal=pal, variant=7, pol=1)
            yield dict(fam="tree", f=f, pal=pal, variant=1, pol=1, resave=True)
    if tier == "quick":
        for f in itertools.islice(mid.iter_forests(3), 0, None, 5):
            yield dict(fam="tree", f=f, pal=pal, variant=1)
    # deeper trees reached through an edit history: a non-leaf child whose node index is LOWER than its parent's
    from ..sysmodel import SIG_DEEP
    deep = Trees(*SIG_DEEP)
    for n in ((3, 4) if tier == "quick" else (3, 4, 5)):
        for f in deep.iter_forests(n):
            yield dict(fam="tree", f=f, pal=pal, variant=2, pol=1, holes=True)
    for V in (1.0e4, 3.0e6):
        for kind in ("none", "Converter", "LinReg", "PSwitch", "RLoss", "VLoss", "PMux", "Rectifier"):
            for load in ("PLoad", "ILoad", "RLoad"):
                for mag in (1.5e6, 4.0e8):
                    yield dict(fam="huge", V=V, kind=kind, load=load, mag=mag, pal=pal)
    for k in (2, 3):
        for inputs in itertools.product(INPUT_OPTS[::2] if (k == 3 or tier == "quick") else INPUT_OPTS, repeat=k):
            for order in itertools.permutations(range(k)):
                yield dict(fam="mux", inputs=[list(x) for x in inputs], pal=pal, rs_list=True, rails=(sum(order) + k) % 2 == 0, order=list(order))
            for j, (t, st) in enumerate(inputs, 1):
                if t in ("SC", "SH", "SL") and k == 2:
                    victim = {"SC": "C%d", "SH": "P%d", "SL": "G%d"}[t] % j
                    yield dict(fam="mux", inputs=[list(x) for x in inputs], pal=pal, rs_list=True, rails=False, order=None, delete=victim)
                    yield dict(fam="mux", inputs=[list(x) for x in inputs], pal=pal, rs_list=True, rails=False, order=[1, 0], delete=victim)
            if k == 2:
                yield dict(fam="mux", inputs=[list(x) for x in inputs], pal=pal, rs_list=False, rails=False, order=None, remux=True)
                yield dict(fam="mux", inputs=[list(x) for x in inputs], pal=pal, rs_list=False, rails=False, order=None, remux=True, below="none")
    for src, comp in (("system", "X"), ("S", "system"), ("type", "params"), ("childs", "limits"), ("S", "parents"),
                      ("Batt [ 2S ]", "Buck [ 1V8 ]"), ("in,  out", "a ,b"), ("[1, 2]", "{x: [ 1 ]}"), ("S\"q", "tab\there"), ("Größe µ", "  ")):
        yield dict(fam="names", source=src, comp=comp)
    from .. import e2
    for sd in e2.SEEDS:
        yield dict(fam="e2seed", seed=sd)
        yield dict(fam="e2seed", seed=sd, hist=[["sp", [["p [ 1 ]", 1.0], ["q,  r", 2.0]]]])
    yield dict(fam="version")
    yield dict(fam="version", mux=True)
    sds = [x for x in e2.SEEDS if x not in ("rails", "railmux", "rerail", "blank")]
    for a_, b_ in zip(sds, sds[1:] + sds[:1]):
        yield dict(fam="oldformat", seeds=[a_, b_])


def replay(doc):
    r = check_case(doc["case"])
    for sig, detail in r.viol[:10]:
        print("  ", sig, detail)
    _cw()
    return [s for s, _ in r.viol]


def main(tier):
    run = Run(PROP, tier, replay)
    try:
        run.map(check_case, gen_cases(tier), chunk=8, family="roundtrip")
    finally:
        _cw()
    for c in ("kind", "tree", "mux", "edited-system", "resave", "version:newer-patch:ValueError", "version:same:loaded"):
        run.require(c in run.classes, "class %s never observed" % c)
    return run.finish(
        rule="(a) for each of the 11 kinds every subset of optional constructor parameters x every mandatory-value form, and every alternative form (list / 1-D / 2-D table / negative / integer) "
             "of each optional parameter, in a 2-phase probe system in which the element sleeps or changes value so that every parameter moves a solved cell; applicable limits, a group and a rail "
             "with a child attached through the rail; (b) every tree of the mid alphabet n<=2 (3 thorough; every 5th n=3 tree in quick) x 4 decorations (rails, by-rail attachment, groups, "
             "limits, phase configurations, negative polarity) and once reached through an edit history with freed / re-used node indices; (c) every 2- and 3-input PMux tuple x EVERY permutation of the priority order; (d) version gate: same / older / newer in "
             "patch, minor, major. Oracle: solve(energy=True), rail_rep(), params(limits=True), phases(), tree() of S and of from_file(save(S)) equal (keyed, exact); save o load o save is a fixed point; trees additionally with component phase configurations but no system phases, and with a component's limits changed through change_comp after a first save of the same object. (e) systems WITHOUT user limits whose voltages / powers exceed the built-in 1e6 bounds (every series kind x load kind): same warnings after the round trip; save() raising is a violation.",
        assumptions=["only applicable limits are configured (save() writes the applicable subset by design)", "one palette per run"])

"""C19 -- diagrams show exactly the system; heat colours and labels follow the losses.
E1/E4: system shapes (chain, fan-out, two sources, multi-input PMux, phases) x ALL group assignments into {"", g1, g2} x grouping on/off x configuration menu
x plain / heat, rendered through fname=*.raw (pydot's DOT text, parsed by mc/dotparse.py); a fixed subset additionally through real Graphviz
(fname=*.json) to confirm the DOT is accepted and yields the same node / edge / cluster sets; a loss-magnitude family for the SI labels."""
import itertools, copy, os, json, re, shutil
from ..common import workdir as _wd, cleanup_workdir as _cw, Run, Res, seed, quiet_call, VERIF, close
from ..sysmodel import build, build_holes, observe, resolve, g, letters, PH2, _r
from ..muxsys import mux_spec
from ..dotparse import parse
from sysloss.diagram import make_diag, make_hdiag, get_conf

PROP = "C19"
COLD, WARM = "#2120ff", "#ff1210"
PREFIX = {"p": 1e-12, "n": 1e-9, "u": 1e-6, "m": 1e-3, "": 1.0, "k": 1e3, "M": 1e6, "G": 1e9, "T": 1e12}


def shapes(pal=0):
    L = letters(pal)
    mk = lambda n, l, p: dict(n=n, k=L[l][0], a=copy.deepcopy(L[l][1]), p=p, g="", r="")
    S = lambda n, v=5.0: dict(n=n, k="Source", a=dict(vo=v, rs=0.1), p=[], g="", r="")
    out = {
        "chain": dict(name="chain sys", phases=None, comps=[S("S1"), mk("C1", "CVc", ["S1"]), mk("R1", "RL", ["C1"]), mk("L1", "PL", ["R1"])]),
        "fan": dict(name="fan", phases=None, comps=[S("S1"), mk("R1", "RL", ["S1"]), mk("L1", "ILx", ["R1"]), mk("L2", "ROx", ["S1"]), mk("L3", "PL", ["R1"])]),
        "two": dict(name="two", phases=None, comps=[S("S1"), S("S 2", 9.0), mk("C 1", "CVc", ["S1"]), mk("L1", "PLx", ["C 1"]), mk("L2", "IL", ["S 2"])]),
        "phased": dict(name="phased", phases=dict(PH2), comps=[S("S1"), mk("C1", "CVc", ["S1"]), dict(mk("L1", "PLx", ["C1"]), pc={"a": 0.05, "b": 0.4}),
                                                                 dict(mk("P1", "PSc", ["S1"]), pc=["a"]), mk("L2", "ILx", ["P1"])]),
    }
    # a phase in which NOTHING dissipates (ideal source, loads defined for phase a only, no sleep currents): it still counts with its duration
    out["idle"] = dict(name="idle", phases=dict(PH2), comps=[
        dict(n="S1", k="Source", a=dict(vo=5.0, rs=0.0), p=[], g="", r=""), mk("R1", "RL", ["S1"]),
        dict(n="L1", k="ILoad", a=dict(ii=0.04, iis=0.0, loss=True), p=["R1"], g="", r="", pc={"a": 0.05}),
        dict(n="L2", k="PLoad", a=dict(pwr=0.3, pwrs=0.0, loss=True), p=["S1"], g="", r="", pc={"a": 0.02})])
    # one component of every kind that shares a base class with another kind (ILoad / RLoad derive from PLoad, VLoss from RLoss)
    out["kinds"] = dict(name="kinds", phases=None, comps=[S("S1"), mk("R1", "RL", ["S1"]), mk("V1", "VLc", ["R1"]), mk("L1", "IL", ["V1"]), mk("L2", "RO", ["S1"]),
                                                         mk("L3", "PL", ["R1"]), mk("D1", "RDc", ["S1"]), mk("L4", "ILx", ["D1"])])
    m = mux_spec([("S", "live"), ("SC", "live")], pal, False, below="std")
    m["phases"] = None
    for c in m["comps"]:
        c["pc"] = None
    out["mux"] = m
    return out


CONFIGS = ["default", "kind", "name", "both", "cluster", "lr", "empty-kind", "falsy-name", "base-kind", "minimal"]


def config_for(label, spec):
    if label == "default":
        return {}
    if label == "minimal":   # a hand-written configuration with the four sections and almost nothing in them: nothing the caller left out may appear
        return {"graph": {"rankdir": "TB"}, "node": {"default": {"shape": "box"}, spec["comps"][1]["n"]: {"color": "red"}}, "edge": {}, "cluster": {"default": {}}}
    c = get_conf()
    first = spec["comps"][1]
    if label in ("kind", "both"):
        c["node"][first["k"]] = {"fillcolor": "coral", "shape": "circle"}
        c["node"]["Source"] = {"fillcolor": "khaki"}
    if label in ("name", "both"):
        c["node"][first["n"]] = {"fillcolor": "green", "peripheries": "2"}
    if label == "cluster":
        c["cluster"]["g1"] = {"fillcolor": "yellow", "label": "G-one"}
    if label == "lr":
        c["graph"]["rankdir"] = "LR"
        c["edge"]["color"] = "red"
    if label == "falsy-name":  # name-level values that are falsy but legal must still beat the kind level
        c["node"][first["k"]] = {"peripheries": "3", "penwidth": "2", "fixedsize": "true"}
        c["node"][first["n"]] = {"peripheries": 0, "penwidth": 0, "fixedsize": 0, "xlabel": ""}
    if label == "base-kind":   # an entry for a kind styles THAT kind only (exact class), not the kinds derived from it
        c["node"]["PLoad"] = {"shape": "octagon", "peripheries": "2"}
        c["node"]["RLoss"] = {"shape": "hexagon", "color": "red"}
        c["node"]["Converter"] = {"style": "dashed"}
    if label == "empty-kind":
        c["node"]["Source"] = {}
        c["node"]["default"]["fontsize"] = "9"
    return c


def expected_node_attrs(conf, kind, name):
    a = dict(conf["node"]["default"])
    a.update(conf["node"].get(kind, {}))
    a.update(conf["node"].get(name, {}))
    return a


def parse_si(txt):
    m = re.match(r"^(-?[0-9.]+(?:e[-+]?[0-9]+)?)([pnumkMGT]?)W$", txt)
    if not m:
        return None
    return float(m.group(1)) * PREFIX[m.group(2)]


def rgb(h):
    return tuple(int(h[i:i + 2], 16) for i in (1, 3, 5))


def workdir():
    return _wd()


def render(s, heat, fmt, group, conf):
    path = os.path.join(workdir(), "d.%s" % fmt)
    if os.path.exists(path):
        os.remove(path)
    f = make_hdiag if heat else make_diag
    ret, _ = quiet_call(f, s, fname=path, group=group, config=conf)
    with open(path) as fh:
        return ret, fh.read()


def check_graph(res, spec, s, gph, heat, group, conf_eff, tag):
    d = resolve(spec)
    names = set(d)
    exp_nodes = names | ({"Scale"} if heat else set())
    if gph["errors"]:
        res.v(("C19.dot-unparseable", tag), gph["errors"][0])
        return
    if set(gph["nodes"]) != exp_nodes or gph["dup_nodes"]:
        res.v(("C19.nodes", tag), "missing %r extra %r duplicated %r" % (sorted(exp_nodes - set(gph["nodes"])), sorted(set(gph["nodes"]) - exp_nodes), gph["dup_nodes"]))
    exp_edges = sorted((p, n) for n in d for p in d[n]["parents"])
    got_edges = sorted((a, b) for a, b, _ in gph["edges"])
    if got_edges != exp_edges:
        res.v(("C19.edges", tag), "got %r expected %r" % (got_edges, exp_edges))
    groups = {}
    for n in d:
        if d[n].get("g"):
            groups.setdefault(d[n]["g"], set()).add(n)
    exp_clusters = {"cluster_" + k: v for k, v in groups.items()} if group else {}
    got_clusters = {}
    for n, (cl, _) in gph["nodes"].items():
        if cl is not None:
            got_clusters.setdefault(cl, set()).add(n)
    for cl in gph["clusters"]:
        got_clusters.setdefault(cl, set())
    if got_clusters != exp_clusters:
        res.v(("C19.clusters", tag, "group=%s" % group), "got %r expected %r" % (got_clusters, exp_clusters))
    for cl, at in gph["clusters"].items():
        gname = cl[len("cluster_"):]
        ea = dict(conf_eff["cluster"]["default"])
        ea.update(conf_eff["cluster"].get(gname, {}))
        ea.setdefault("label", gname)
        if "label" in conf_eff["cluster"].get(gname, {}):
            ea["label"] = conf_eff["cluster"][gname]["label"]
        for k, v in ea.items():
            if at.get(k) != str(v):
                res.v(("C19.cluster-attr", k), "%s: %r expected %r" % (cl, at.get(k), v))
    for k, v in conf_eff["graph"].items():
        if gph["graph"].get(k) != str(v):
            res.v(("C19.graph-attr", k), "%r expected %r" % (gph["graph"].get(k), v))
    for a, b, at in gph["edges"]:
        for k, v in conf_eff["edge"].items():
            if at.get(k) != str(v):
                res.v(("C19.edge-attr", k), "%s->%s %r expected %r" % (a, b, at.get(k), v))
                break
    for n in names & set(gph["nodes"]):
        at = gph["nodes"][n][1]
        ea = expected_node_attrs(conf_eff, d[n]["k"], n)
        for k, v in ea.items():
            if heat and k in ("fillcolor", "fontcolor", "label"):
                continue
            if at.get(k) != str(v):
                res.v(("C19.node-attr", tag, k), "%s %s=%r expected %r" % (n, k, at.get(k), v))
        extra = set(at) - set(ea) - ({"label", "fillcolor", "fontcolor"} if heat else set())
        if extra:
            res.v(("C19.node-extra-attr", tag), "%s %r" % (n, sorted(extra)))
    if heat:
        df, _ = quiet_call(s.solve)
        obs = observe(df)
        phases = spec.get("phases")
        loss = {}
        for n in names:
            if phases:
                T = sum(phases.values())
                loss[n] = sum(g(obs[(ph, n)], "Loss (W)") * phases[ph] for ph in phases) / T
            else:
                loss[n] = g(obs[("", n)], "Loss (W)")
        mx = max(loss.values())
        cols = {}
        for n in names & set(gph["nodes"]):
            at = gph["nodes"][n][1]
            lab = at.get("label", "")
            parts = lab.split("\\n")
            val = parse_si(parts[-1]) if len(parts) == 2 else None
            if len(parts) != 2 or parts[0] != n or val is None:
                res.v(("C19.heat-label-format",), "%s label %r" % (n, lab))
            elif abs(val - loss[n]) > 5.01e-3 * abs(loss[n]) + 1e-300:
                res.v(("C19.heat-label-value",), "%s label %r but loss %r" % (n, lab, loss[n]))
            c = at.get("fillcolor", "")
            if not re.match(r"^#[0-9a-f]{6}$", c):
                res.v(("C19.heat-colour-format",), "%s %r" % (n, c))
                continue
            cols[n] = rgb(c)
            if mx > 0 and loss[n] == mx and c != WARM:
                res.v(("C19.heat-max-not-warm",), "%s loss %r colour %s" % (n, loss[n], c))
            if loss[n] == 0 and c != COLD:
                res.v(("C19.heat-zero-not-cold",), "%s colour %s" % (n, c))
        order = sorted(cols, key=lambda n: loss[n])
        for a, b in zip(order, order[1:]):
            if cols[a][0] > cols[b][0] or cols[a][2] < cols[b][2]:
                res.v(("C19.heat-colour-order",), "%s loss %r %r vs %s loss %r %r" % (a, loss[a], cols[a], b, loss[b], cols[b]))
        sc = gph["nodes"].get("Scale")
        if sc:
            lab = sc[1].get("label", "")
            m = re.match(r"^\{?([^|]*)\|  \|  \| 0W\}?$", lab)
            v = parse_si(m.group(1)) if m else None
            if v is None or abs(v - mx) > 5.01e-3 * abs(mx) + 1e-300:
                res.v(("C19.heat-legend",), "legend %r, max loss %r" % (lab, mx))
            td = conf_eff["graph"]["rankdir"] in ("TB", "BT")
            if lab.startswith("{") != td:
                res.v(("C19.heat-legend-orientation",), "%r rankdir %s" % (lab, conf_eff["graph"]["rankdir"]))
        if len(set(loss.values())) >= 3:
            res.nontrivial = 1


def check_case(case):
    res = Res()
    fam = case["fam"]
    if fam == "si":
        comps = [dict(n="S1", k="Source", a=dict(vo=10.0), p=[], g="", r="")]
        for j, p in enumerate(case["losses"]):
            if p >= 1e-5 or p == 0.0:
                comps.append(dict(n="L%d" % j, k="PLoad", a=dict(pwr=p, loss=True), p=["S1"], g="", r=""))
            else:  # micro-power: the solver's absolute current tolerance (1e-8 A) would zero a tiny load; use 1 mA through a tiny resistance
                comps.append(dict(n="L%d" % j, k="RLoss", a=dict(rs=p / 1e-6), p=["S1"], g="", r=""))
                comps.append(dict(n="I%d" % j, k="ILoad", a=dict(ii=1e-3), p=["L%d" % j], g="", r=""))
        spec = dict(name="si", comps=comps, phases=None)
    elif fam == "names":
        comps = [dict(n=case["names"][0], k="Source", a=dict(vo=5.0), p=[], g="", r="")]
        comps.append(dict(n=case["names"][1], k="RLoss", a=dict(rs=1.0), p=[case["names"][0]], g="", r=""))
        comps.append(dict(n=case["names"][2], k="ILoad", a=dict(ii=0.1), p=[case["names"][1]], g="", r=""))
        spec = dict(name="names", comps=comps, phases=None)
    elif fam == "custom":
        spec = copy.deepcopy(case["spec"])
    else:
        spec = copy.deepcopy(shapes(case["pal"])[case["shape"]])
        for c, gi in zip(spec["comps"], case["groups"]):
            c["g"] = (["", "g1", "g10"] if not case.get("blank_groups") else ["", "g1 ", " g1"])[gi]   # prefix-related names / names with blanks
    s = build_holes(spec) if case.get("holes") else build(spec)
    conf = config_for(case.get("config", "default"), spec)
    conf_before = copy.deepcopy(conf)
    conf_eff = conf if conf else get_conf()
    heat, group = case.get("heat", False), case.get("group", True)
    tag = ("heat" if heat else "plain") + (":" + case["tagx"] if case.get("tagx") else "")
    try:
        ret, text = render(s, heat, "raw", group, conf)
    except Exception as e:
        res.v(("C19.render-raises", tag, type(e).__name__), str(e)[:200])
        return res
    res.stats["transitions"] += 1
    if ret is not None:
        res.v(("C19.return-value",), "%r" % (ret,))
    if conf != conf_before:
        res.v(("C19.config-mutated",), "caller's configuration changed")
    gph = parse(text)
    check_graph(res, spec, s, gph, heat, group, copy.deepcopy(conf_eff), tag)
    if heat and case.get("swap"):
        # the diagram was drawn; now a tabulated component is replaced under the same name by one with OTHER table values; the next diagram shows the new losses
        from ..sysmodel import make_comp
        for c in spec["comps"]:
            tabs = [k_ for k_, v_ in c["a"].items() if isinstance(v_, dict)]
            if tabs:
                z_ = [k_ for k_ in c["a"][tabs[0]] if k_ not in ("vi", "io")][0]
                c["a"][tabs[0]][z_] = [[(min(0.99, v_ * 0.8) if z_ == "eff" else v_ * 3.0) for v_ in row] for row in c["a"][tabs[0]][z_]]
                s.change_comp(c["n"], comp=make_comp(c), group=c.get("g", ""), rail=c.get("r", ""))
                if c.get("pc") is not None and spec.get("phases"):
                    s.set_comp_phases(c["n"], copy.deepcopy(c["pc"]))
        ret, text = render(s, heat, "raw", group, conf)
        check_graph(res, spec, s, parse(text), heat, group, copy.deepcopy(conf_eff), tag + ":after-table-swap")
        res.classes.add("swap")
    if case.get("graphviz"):
        try:
            ret, jt = render(s, heat, "json", group, conf)
            J = json.loads(jt)
            objs = J.get("objects", [])
            jn = sorted(o["name"] for o in objs if "nodes" not in o and "subgraphs" not in o and not o["name"].startswith("cluster_"))
            jc = sorted(o["name"] for o in objs if o["name"].startswith("cluster_"))
            je = sorted((objs[e["tail"]]["name"], objs[e["head"]]["name"]) for e in J.get("edges", []))
            d = resolve(spec)
            en = sorted(set(d) | ({"Scale"} if heat else set()))
            if jn != en:
                res.v(("C19.graphviz-nodes", tag), "graphviz sees %r expected %r" % (jn, en))
            ee = sorted((p, n) for n in d for p in d[n]["parents"])
            if je != ee:
                res.v(("C19.graphviz-edges", tag), "graphviz sees %r expected %r" % (je, ee))
            ec = sorted("cluster_" + x for x in set(c["g"] for c in spec["comps"] if c.get("g"))) if group else []
            if jc != ec:
                res.v(("C19.graphviz-clusters", tag), "%r expected %r" % (jc, ec))
            res.stats["graphviz_renders"] += 1
        except Exception as e:
            res.v(("C19.graphviz-fails", tag, type(e).__name__), str(e)[:200])
    if fam == "names":  # one signature family per name menu, so that a recorded finding is identified by its exact input
        res.viol = [(("C19.odd-names", "|".join(case["names"]), "heat" if heat else "plain", sig[0]), det) for sig, det in res.viol]
    res.classes.add("%s:%s:%s" % (fam, "heat" if heat else "plain", case.get("config", "default")))
    if case.get("holes"):
        res.classes.add("edited-system")
    return res


def gen_cases(tier):
    pal = seed() % 3
    sh = shapes(pal)
    gv = 0
    for name, spec in sh.items():
        n = len(spec["comps"])
        kmax = min(n, 4 if tier == "quick" else 5)
        for gs in itertools.product((0, 1, 2), repeat=kmax):
            groups = list(gs) + [0] * (n - kmax)
            for cfg in CONFIGS:
                if tier == "quick" and cfg not in ("default", "both") and sum(gs) % 3 != 0:
                    continue
                for heat in (False, True):
                    for group in (True, False):
                        if not group and cfg not in ("default", "cluster"):
                            continue
                        use_gv = (sum(gs) == 3 and cfg in ("both", "lr") and group) and gv < (24 if tier == "quick" else 300)
                        if use_gv:
                            gv += 1
                        yield dict(fam="shape", shape=name, pal=pal, groups=groups, config=cfg, heat=heat, group=group, graphviz=use_gv)
                        if cfg == "default" and sum(gs) in (2, 3) and not heat:
                            yield dict(fam="shape", shape=name, pal=pal, groups=groups, config=cfg, heat=heat, group=group, graphviz=False, blank_groups=True)
                        if cfg == "default" and sum(gs) in (0, 2):  # the same structure reached through an edit history (freed + re-used node indices)
                            yield dict(fam="shape", shape=name, pal=pal, groups=groups, config=cfg, heat=heat, group=group, graphviz=False, holes=True)
    L_ = letters(pal)
    tabsys = dict(name="tabs", phases=dict(PH2), comps=[
        dict(n="S1", k="Source", a=dict(vo=5.0, rs=0.1), p=[], g="", r=""),
        dict(n="C1", k=L_["CV1"][0], a=copy.deepcopy(L_["CV1"][1]), p=["S1"], g="g1", r=""), dict(n="V1", k=L_["VL1"][0], a=copy.deepcopy(L_["VL1"][1]), p=["C1"], g="", r=""),
        dict(n="G1", k=L_["LR1"][0], a=copy.deepcopy(L_["LR1"][1]), p=["S1"], g="", r=""), dict(n="L1", k="ILoad", a=dict(ii=0.2), p=["V1"], g="", r="", pc={"a": 0.1, "b": 0.3}),
        dict(n="L2", k="PLoad", a=dict(pwr=0.1), p=["G1"], g="", r="")])
    for cfg in ("default", "minimal"):
        for group in (True, False):
            yield dict(fam="custom", spec=tabsys, config=cfg, heat=True, group=group, swap=True)
    decs = range(-14, 13)
    mant = [1.234, 9.996, 5.555, 1.0, 9.5]
    for d_ in decs:
        for cfg in ("default", "lr"):
            yield dict(fam="si", losses=[_r(m * 10.0 ** d_) for m in mant] + [0.0], config=cfg, heat=True, group=True)
    for names in (["a b", "c-d", "e.f"], ["x:1", "R", "x:2"], ["S", 'q"t', "L"], ["S", "Scale", "L"], ["node", "graph", "edge"]):
        for heat in (False, True):
            yield dict(fam="names", names=names, heat=heat, group=True, graphviz=True, tagx="")


def replay(doc):
    r = check_case(doc["case"])
    for sig, detail in r.viol[:10]:
        print("  ", sig, detail)
    _cw()
    return [s for s, _ in r.viol]


def main(tier):
    run = Run(PROP, tier, replay)
    try:
        run.map(check_case, gen_cases(tier), chunk=8, family="diagrams")
    finally:
        _cw()
    run.require(run.stats["graphviz_renders"] >= 10, "too few Graphviz renders")
    run.require("edited-system" in run.classes, "no edited systems rendered")
    return run.finish(
        rule="5 system shapes (chain, fan-out, two sources, 2-input PMux, 2-phase system) x ALL assignments of the first 4 (5) components to groups {none, g1, g10} x 7 configurations "
             "(default {}, kind override, name override, both, cluster override, rankdir LR + edge colour, empty kind entry) x plain / heat x grouping on / off, rendered to DOT text (fname=*.raw) and parsed; "
             "a subset rendered by real Graphviz (fname=*.json) and compared node / edge / cluster sets; loss magnitudes 1e-14..1e7 W x 5 mantissas (incl. rounding carries) for the SI labels; "
             "5 name menus with spaces, colons, quotes and DOT keywords; every shape additionally reached through an edit history that frees and re-uses node indices. Oracle: node / edge / cluster sets, attribute precedence default < kind < name on every node, caller's config unchanged, "
             "heat label parses back within 3 significant digits of the duration-weighted loss, colours ordered as losses, max -> warm and zero -> cold exactly, legend = max loss. "
             "non-trivial = heat diagram with >= 3 distinct losses.",
        assumptions=["DOT text parsed by a purpose-built tokenizer for the subset pydot emits", "image output (PNG) not inspected"])

"""C01 -- solved table obeys every component's documented electrical law.
Engine E1: every canonical power tree up to n non-source nodes over the component alphabet, both polarities,
source resistance 0 / r, single- and two-source forests; oracle = phys.check_phase(want C01) + mirror metamorphism."""
from ..common import Run, Res, quiet_call, seed, close
from ..sysmodel import (Trees, SIG_FULL, SIG_MID, SIG_DEEP, SIG_ZERO, spec_from_forest, build, build_holes, observe, resolve, g, PALETTES,
                        letters, mirror_args, tree_size)
from .. import phys

PROP = "C01"
SRS = 0.37


def solve_spec(spec, holes=None, rej=False, **kw):
    s = build(spec) if not holes else build_holes(spec, analyse=(holes == "analysed"))
    if rej:   # a run of refused edits before the analysis: the table must still be that of the tree
        from ..sysmodel import rejected_edits
        if rejected_edits(s, spec):
            return s, None, ("ValueError", "HARNESS: a call of the refused-edits menu was accepted")
    try:
        df, _ = quiet_call(s.solve, **kw)
    except RuntimeError as e:
        return s, None, ("RuntimeError", str(e))
    except ValueError as e:
        return s, None, ("ValueError", str(e))
    return s, df, None


def two_source_spec(f1, f2, pal, pol, srs):
    a = spec_from_forest(f1, pal, pol, srs)
    b = spec_from_forest(f2, pal, pol, 0.0, src_vo=PALETTES[pal]["V"] * 1.3)
    ren = {c["n"]: "B" + c["n"] for c in b["comps"]}
    for c in b["comps"]:
        c["n"] = ren[c["n"]]
        c["p"] = [ren[p] for p in c["p"]]
    a["comps"] += b["comps"]
    return a


def case_spec(case):
    if case["fam"] == "micro":
        from ..sysmodel import micro_letters
        return spec_from_forest(case["f"], case["pal"], case["pol"], case["srs"], src_vo=1.0, extra=micro_letters())
    if case["fam"] == "two":
        return two_source_spec(case["f"], case["f2"], case["pal"], case["pol"], case["srs"])
    return spec_from_forest(case["f"], case["pal"], case["pol"], case["srs"])


def spread_spec(depth, heavy, micro, pol=1):
    """an amps-level branch next to a deep micro-amp regulator chain: every row must be converged, not only the big ones."""
    comps = [dict(n="S", k="Source", a=dict(vo=48.0 * pol, rs=0.01), p=[], g="", r="")]
    comps.append(dict(n="H", k="ILoad", a=dict(ii=heavy), p=["S"], g="", r=""))
    prev, v = "S", 24.0
    for j in range(depth):
        if j % 2 == 0:
            comps.append(dict(n="B%d" % j, k="Converter", a=dict(vo=v * pol, eff=0.8, iq=2e-6), p=[prev], g="", r=""))
        else:
            comps.append(dict(n="B%d" % j, k="LinReg", a=dict(vo=v * pol, vdrop=0.1, ig=1e-6), p=[prev], g="", r=""))
        prev, v = "B%d" % j, v * 0.6
    comps.append(dict(n="U", k="ILoad", a=dict(ii=micro), p=[prev], g="", r=""))
    return dict(name="spread", comps=comps, phases=None)


def check_case(case, want=("C01",)):
    res = Res()
    if case["fam"] == "c05edit":   # the edit histories of C05 (rename / re-rail / hand-over / delete an input, re-add the mux), judged by the C01 row laws
        from . import c05
        r5 = c05.check_case(case["case"])
        for sig, det in r5.viol:
            if len(sig) > 1 and sig[1].startswith("C01."):
                res.v(("C01.after-edit",) + tuple(sig[1:]), det)
            elif sig[0] == "C05.after-edit-solve-raises":   # solve() raising something other than RuntimeError / 'Unstable system' on a well-formed tree
                res.v(("C01.after-edit", "solve-raises") + tuple(sig[1:]), det)
        res.stats.update(r5.stats)
        res.nontrivial = r5.nontrivial
        return res
    if case["fam"] == "phased":    # per-phase load tables (incl. an explicit 0 and a negative value) and phase lists: every phase obeys the laws
        from ..sysmodel import with_phases, PH2
        spec = spec_from_forest(case["f"], case["pal"], 1, case["srs"])
        names = [c["n"] for c in spec["comps"]]
        spec = with_phases(spec, PH2, dict(zip(names, case["assign"])))
        if case.get("bounce"):   # the system phases re-defined with other names (or cleared) and then as before
            spec["bounce"] = case["bounce"]
        s_, obs_ = phys.solve_and_check(res, spec, want, ta=25.0)
        if obs_ is not None and any(isinstance(a, dict) for a in case["assign"]):
            # the same system loaded from a file in which the per-phase load values carry a negative sign
            from ..sysmodel import reload_negated
            try:
                s2 = reload_negated(s_, "c01")
                o2 = observe(quiet_call(s2.solve)[0])
                sub = Res()
                for ph in spec["phases"]:
                    phys.check_phase(sub, spec, o2, ph, 25.0, want)
                res.viol += [(("C01.file-with-negative-phase-values",) + sig, det) for sig, det in sub.viol]
            except (RuntimeError, ValueError):
                pass
            except Exception as e:
                res.v(("C01.file-with-negative-phase-values", "raises", type(e).__name__), str(e)[:200])
        res.nontrivial = 1
        return res
    if case["fam"] == "spread":
        spec = spread_spec(case["depth"], case["heavy"], case["micro"], case["pol"])
        before = res.stats["nontrivial_rows"]
        phys.solve_and_check(res, spec, want)
        res.nontrivial = 1
        return res
    if case["fam"] == "mux":  # multi-input PMux: Vin from the selected input, its current charged to that input only
        from ..muxsys import mux_spec
        spec = mux_spec([tuple(x) for x in case["inputs"]], case["pal"], case["rs_list"], below=case.get("below", "deep"), pol=case["pol"], ig_table=case.get("ig_table", False))
        before = res.stats["nontrivial_rows"]
        if case.get("remux"):
            from ..muxsys import apply_remux
            from ..sysmodel import resolve as _res
            s = build(spec)
            try:
                quiet_call(s.solve)
            except (RuntimeError, ValueError):
                pass
            spec = apply_remux(s, spec)
            try:
                df, _ = quiet_call(s.solve)
            except (RuntimeError, ValueError):
                res.classes.add("raised")
                return res
            except Exception as e:
                res.v(("C01.exception", type(e).__name__), "after re-adding the mux: %s" % e)
                return res
            obs = observe(df)
            dd = _res(spec)
            for ph in spec["phases"]:
                phys.check_phase(res, spec, obs, ph, 25.0, want, dd)
        else:
            phys.solve_and_check(res, spec, want)
        res.nontrivial = 1 if res.stats["nontrivial_rows"] > before else 0
        return res
    if case.get("tight"):
        # the caller asks for 1e-10: the returned rows must then satisfy the laws to that order (not merely to the default tolerance)
        spec = case_spec(case)
        s = build(spec)
        try:
            df, _ = quiet_call(s.solve, vtol=1e-10, itol=1e-10)
        except (RuntimeError, ValueError):
            res.classes.add("raised")
            return res
        phys.check_phase(res, spec, observe(df), "", 25.0, want, law_rt=1e-8, law_at=5e-8)
        res.nontrivial = 1
        return res
    spec = case_spec(case)
    ta = case.get("ta", 25.0)
    s, df, exc = solve_spec(spec, holes=case.get("holes"), rej=case.get("rej", False), ta=ta)
    res.stats["transitions"] += len(spec["comps"]) + 1
    if exc is not None:
        if exc[0] == "RuntimeError" or "Unstable" in exc[1]:
            res.classes.add("raised:" + exc[0])
            res.stats["unsolvable"] += 1
            return res
        res.v((PROP + ".exception", exc[0]), exc[1])
        return res
    obs = observe(df)
    res.stats["traces"] += 1
    before = res.stats["nontrivial_rows"]
    phys.check_phase(res, spec, obs, "", ta, want)
    res.nontrivial = 1 if res.stats["nontrivial_rows"] > before else 0
    res.classes.add("solved")
    # mirror metamorphism (only where the negative-source finding cannot interfere: srs == 0)
    if "C01" in want and case["pol"] == 1 and case["srs"] == 0.0 and case.get("mirror", True):
        c2 = dict(case, pol=-1)
        spec2 = case_spec(c2)
        s2, df2, exc2 = solve_spec(spec2)
        res.stats["transitions"] += len(spec2["comps"]) + 1
        if exc2 is not None:
            res.v((PROP + ".mirror-raises", exc2[0]), exc2[1])
        else:
            o2 = observe(df2)
            res.stats["mirror_pairs"] += 1
            for key, r in obs.items():
                if key in ("__cols__", "__dups__"):
                    continue
                r2 = o2.get(key)
                if r2 is None:
                    res.v((PROP + ".mirror-row",), str(key))
                    continue
                for col in ("Vin (V)", "Vout (V)", "Iin (A)", "Iout (A)", "Power (W)", "Loss (W)", "Efficiency (%)"):
                    if not close(abs(g(r, col)), abs(g(r2, col)), 1e-6, 1e-10):
                        res.v((PROP + ".mirror", col, r.get("Type", "")), "%s %s: %r vs mirrored %r" % (key, col, g(r, col), g(r2, col)))
                        break
    return res


def gen_cases(tier, want_mirror=True):
    sd = seed()
    pals = [sd % 3] if tier == "quick" else [0, 1, 2]
    full, mid, deep = Trees(*SIG_FULL), Trees(*SIG_MID), Trees(*SIG_DEEP)
    plan = []
    if tier == "quick":
        plan = [("full", full, [1, 2], [(1, 0.0), (1, SRS), (-1, SRS)]),
                ("full", full, [3], [(1, 0.0)]),
                ("deep", deep, [4, 5], [(1, SRS)])]
    else:
        plan = [("full", full, [1, 2, 3], [(1, 0.0), (1, SRS), (-1, SRS)])]
        big = [("mid", mid, [4], [(1, 0.0), (-1, SRS)]), ("deep", deep, [4, 5, 6], [(1, SRS)]), ("deep", deep, [4, 5], [(1, 0.0)])]
    for pal in pals:
        for fam, T, ns, variants in plan:
            for n in ns:
                for f in T.iter_forests(n):
                    for pol, srs in variants:
                        yield dict(fam=fam, f=f, pal=pal, pol=pol, srs=srs, n=n)
        if tier != "quick" and pal == sd % 3:  # the two largest spaces: one palette
            for fam, T, ns, variants in big:
                for n in ns:
                    for f in T.iter_forests(n):
                        for pol, srs in variants:
                            yield dict(fam=fam, f=f, pal=pal, pol=pol, srs=srs, n=n)
        from ..muxsys import INPUT_OPTS
        import itertools
        for k in (2, 3):
            for inputs in itertools.product(INPUT_OPTS if (k == 2 or tier != "quick") else INPUT_OPTS[::2], repeat=k):
                for pol in (1, -1):
                    yield dict(fam="mux", inputs=[list(x) for x in inputs], pal=pal, rs_list=(k == 3), pol=pol, srs=0.0, n=k)
                yield dict(fam="mux", inputs=[list(x) for x in inputs], pal=pal, rs_list=False, pol=1, srs=0.0, n=k, ig_table=True)
                for pol in ((1, -1) if k == 2 else (1,)):  # per-input resistances written with a negative sign are magnitudes (constructor rule for scalars)
                    yield dict(fam="mux", inputs=[list(x) for x in inputs], pal=pal, rs_list="neg", pol=pol, srs=0.0, n=k)
                if k == 2:
                    yield dict(fam="mux", inputs=[list(x) for x in inputs], pal=pal, rs_list=False, pol=1, srs=0.0, n=k, remux=True)
                    yield dict(fam="mux", inputs=[list(x) for x in inputs], pal=pal, rs_list=False, pol=1, srs=0.0, n=k, remux=True, below="none")
        zero = Trees(SIG_ZERO[0], SIG_ZERO[1], max_one=("MX0",))
        for n in (1, 2, 3):
            for f in zero.iter_forests(n):
                for pol, srs in ((1, 0.0), (-1, 0.0), (1, SRS)):
                    yield dict(fam="zero", f=f, pal=pal, pol=pol, srs=srs, n=n)
        from ..sysmodel import pc_options, PH2
        import itertools as _it
        for n in (1, 2):
            for f in deep.iter_forests(n):
                base = spec_from_forest(f, pal, 1, SRS)
                for assign in _it.product(*[pc_options(c, PH2, full=(n == 1)) for c in base["comps"]]):
                    if any(a is not None for a in assign):
                        yield dict(fam="phased", f=f, pal=pal, pol=1, srs=SRS, n=n, assign=list(assign))
                        if n == 1:
                            yield dict(fam="phased", f=f, pal=pal, pol=1, srs=SRS, n=n, assign=list(assign), bounce="rename")
                            yield dict(fam="phased", f=f, pal=pal, pol=1, srs=SRS, n=n, assign=list(assign), bounce="clear")
        from . import c05
        for c5 in c05.gen_edits(tier, pal):
            if c5.get("handover") or c5.get("rename") or (c5.get("delete") and not c5.get("remux") and not c5.get("reload")):
                yield dict(fam="c05edit", case=c5, pal=pal, pol=1, srs=0.0, n=len(c5["inputs"]))
        from ..sysmodel import SIG_MICRO
        for n in (1, 2, 3):
            for f in Trees(*SIG_MICRO).iter_forests(n):
                for pol, srs in ((1, 50.0), (1, 0.0), (-1, 0.0)):
                    yield dict(fam="micro", f=f, pal=pal, pol=pol, srs=srs, n=n)
        from ..sysmodel import SIG_NEGTAB
        negtab = Trees(*SIG_NEGTAB)
        for n in (1, 2, 3):
            for f in negtab.iter_forests(n):
                if "m" in str(f) or "LRq" in str(f):
                    for pol in (1, -1):
                        yield dict(fam="zero", f=f, pal=pal, pol=pol, srs=0.0, n=n)
        # the same structures reached through an edit history (freed / re-used node indices: a child may have a LOWER index than its parent),
        # with and without an analysis in the middle of the history
        for n in (3, 4):
            for f in deep.iter_forests(n):
                for holes in ("plain", "analysed"):
                    yield dict(fam="deep", f=f, pal=pal, pol=1, srs=SRS, n=n, holes=holes, mirror=False)
        for n in (2, 3, 4):
            for f in deep.iter_forests(n):
                yield dict(fam="deep", f=f, pal=pal, pol=1, srs=SRS, n=n, tight=True)
        for fam, T, ns in (("deep", deep, (1, 2, 3)), ("mid", mid, (2,))):   # every documented refusal is provoked before the analysis
            for n in ns:
                for f in T.iter_forests(n):
                    yield dict(fam=fam, f=f, pal=pal, pol=1, srs=SRS, n=n, rej=True, mirror=False)
        for depth in (2, 3, 4, 5, 6):
            for heavy in (0.5, 10.0, 20.0):
                for micro in (2e-6, 2e-5, 1e-3):
                    for pol in (1, -1):
                        yield dict(fam="spread", depth=depth, heavy=heavy, micro=micro, pol=pol, pal=pal, srs=0.0, n=depth + 2)
        # two sources
        T2 = mid
        for n1 in (1, 2):
            for n2 in (1, 2) if tier != "quick" else (1,):
                for f1 in T2.forests(n1):
                    for f2 in T2.forests(n2):
                        if str(f1).count("MX") + str(f2).count("MX") > 1:
                            continue
                        for pol in (1, -1):
                            yield dict(fam="two", f=f1, f2=f2, pal=pal, pol=pol, srs=SRS if pol > 0 else 0.0, n=n1 + n2)


def replay(doc):
    r = check_case(doc["case"])
    for sig, detail in r.viol:
        print("  ", sig, detail)
    return [s for s, _ in r.viol]


def main(tier):
    run = Run(PROP, tier, replay)
    run.map(check_case, gen_cases(tier), chunk=64, family="trees")
    run.require(run.stats["mirror_pairs"] > 100, "no mirror pairs compared")
    run.require(run.nontrivial > 100, "no non-trivial rows")
    return run.finish(
        rule="E1: every canonical tree (children as multisets) with n non-source nodes over the letter alphabets "
             "(full: 20 interior + 6 leaf letters, mid: 10+3, deep: 4+2; at most one PMux), x polarity x source rs in {0,0.37}, "
             "plus every tree n<=3 over a degenerate alphabet (zero resistances / drops / currents / powers, efficiency exactly 1, a regulator exactly at its drop-out boundary), amps-level loads beside micro-amp regulator chains of depth 2..6, two-source forests and 2-/3-input PMux systems (every input option of C05, both polarities); palette(s) by VERIF_SEED (quick) or all three (thorough). A case is non-trivial when some row "
             "took a non-default law branch (off-grid table lookup, clamp, drop-out, no-load, rectified negative input, fan-out>=2). "
             "Mux systems also with the per-input resistance list written with negative signs (magnitudes). "
             "states = distinct systems built on the real code, transitions = public API calls (add_source/add_comp/solve) executed, "
             "traces_validated = solved tables whose every row was compared with the reference law.",
        assumptions=["numeric values limited to the palettes", "trees up to the stated node bound",
                     "2-D tables are planar so the result is triangulation independent"],
        extra={"bounds": {"tier": tier, "palettes": [seed() % 3] if tier == "quick" else [0, 1, 2]}})

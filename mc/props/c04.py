"""C04 -- a dead supply rail isolates everything below it.
E1: trees x one dead element at every position x cause of death (source 0 V; source / converter / regulator / switch / mux inactive in a phase;
PMux with no live input) x every load kind below.  Oracle: exact zeros below the dead element, exact sleep current / power at the
inactive element, live siblings still obey their laws (C01 rows)."""
import itertools
from ..common import Run, Res, seed
from ..sysmodel import Trees, SIG_MID, SIG_DEEP, spec_from_forest, with_phases, pc_options, PH2, PH3, PHASE_LIST_KINDS, resolve
from ..muxsys import mux_spec
from .. import phys
from .c03 import chains

PROP = "C04"
WANT = ("C04", "C01")


def check_case(case):
    res = Res()
    fam = case["fam"]
    if fam == "zero":
        spec = spec_from_forest(case["f"], case["pal"], case["pol"], 0.37, src_vo=0.0)
    elif fam == "phase":
        spec = spec_from_forest(case["f"], case["pal"], case["pol"], case["srs"])
        spec = with_phases(spec, PH3 if case.get("ph3") else PH2, {case["who"]: case["pc"]})
        if case.get("pc_first"):
            spec["pc_first"] = True
        if case.get("sumname"):   # a leaf load literally named like a summary row
            loads = [c for c in spec["comps"] if c["k"] in ("PLoad", "ILoad", "RLoad")]
            for c, nm in zip(loads[::-1], ("System total", "System average")):
                old_ = c["n"]
                c["n"] = nm
                for c2 in spec["comps"]:
                    c2["p"] = [nm if q == old_ else q for q in c2["p"]]
        if case.get("reconf"):   # configured TWICE: first for every phase (or an unrelated table), then with the final configuration, which replaces the first
            for c in spec["comps"]:
                if c["n"] == case["who"]:
                    c["pc0"] = ["a", "b", "c"] if isinstance(c["pc"], list) else {"a": 1e-3, "b": 2e-3}
        if case.get("bounce"):
            spec["bounce"] = case["bounce"]
        if case.get("nophase"):  # a phase list on a component of a system WITHOUT system phases: the unnamed phase is in nobody's list
            spec["phases"] = None
    elif fam == "sib":  # dead source next to a live one
        from .c01 import two_source_spec
        spec = two_source_spec(case["f"], case["f2"], case["pal"], 1, 0.37)
        for c in spec["comps"]:
            if c["n"] == "S":
                c["a"]["vo"] = 0.0
    elif fam == "muxrail":
        # a mux attached by RAIL names; then its first input is replaced by a 0 V source WITHOUT rail and the old rail name is handed to a live
        # component that does not feed the mux: the mux must follow its input (dead whenever the other input is dead), not the rail name
        import copy
        from ..sysmodel import build, observe, make_comp
        from ..common import quiet_call
        spec = mux_spec([("S", "live"), ("SH", "inact-reg")], case["pal"], case["rs_list"], rails=True, by_rail=True, below="deep")
        s = build(spec)
        if case.get("analyse"):
            quiet_call(s.solve)
        s1 = [c for c in spec["comps"] if c["n"] == "S1"][0]
        s0 = [c for c in spec["comps"] if c["n"] == "S0"][0]
        old = s1["r"]
        s1["a"]["vo"], s1["r"] = 0.0, ""
        s.change_comp("S1", comp=make_comp(s1))
        s0["r"] = old
        s.change_comp("S0", comp=make_comp(s0), rail=old)
        for c in spec["comps"]:
            c["p"] = ["S1" if q == old else q for q in c["p"]]
        try:
            df, _ = quiet_call(s.solve)
        except Exception as e:
            res.v(("C04.muxrail-solve-raises", type(e).__name__), str(e))
            return res
        obs = observe(df)
        dd = resolve(spec)
        for ph in spec["phases"]:
            phys.check_phase(res, spec, obs, ph, 25.0, WANT, dd)
        res.viol = [(("C04.after-rail-handover",) + sig, det) for sig, det in res.viol]
        res.nontrivial = 1
        res.classes.add("muxrail")
        return res
    else:  # mux without a live input, next to a live shared source
        spec = mux_spec([tuple(x) for x in case["inputs"]], case["pal"], case["rs_list"], below="deep", mux_pc=case.get("mux_pc"), pol=case.get("pol", 1))
        if case.get("ph3"):
            # three phases: the first input lives in phase a only (dead in b AND c, a live second input carries the mux there) while ONE element below the
            # mux has its own active list -- its sleep / off state in each phase is its own, whatever the other phases looked like
            from ..sysmodel import PH3
            spec["phases"] = dict(PH3)
            who, pcl = case["ph3"]
            for c in spec["comps"]:
                if c["n"] == who:
                    c["pc"] = list(pcl)
                    if c["k"] in ("ILoad", "PLoad", "RLoad"):   # loads take a table: their own value in the listed phases, asleep (iis / pwrs) in the others
                        val = c["a"][{"ILoad": "ii", "PLoad": "pwr", "RLoad": "rs"}[c["k"]]]
                        c["pc"] = {ph: val * (1.0 + 0.25 * j) for j, ph in enumerate(pcl)}
    if case.get("move"):
        # analysis first, then a leaf load is moved (delete + add, same counts, index re-used) under the element that sleeps in one phase
        from ..sysmodel import build, observe, move_leaf, LOADS
        from ..common import quiet_call
        d0 = resolve(spec)
        leaves = [n for n in d0 if d0[n]["k"] in LOADS and d0[n]["parents"][0] != case["who"]]
        if not leaves or d0[case["who"]]["k"] in LOADS:
            return res
        s = build(spec)
        try:
            quiet_call(s.solve)
        except (RuntimeError, ValueError):
            return res
        spec = move_leaf(s, spec, leaves[0], case["who"])
        try:
            df, _ = quiet_call(s.solve)
        except (RuntimeError, ValueError):
            res.classes.add("moved-unsolvable")
            return res
        obs = observe(df)
        dd = resolve(spec)
        for ph in spec["phases"]:
            phys.check_phase(res, spec, obs, ph, 25.0, WANT, dd)
        res.viol = [(("C04.after-move",) + sig, det) for sig, det in res.viol]
        res.nontrivial = 1
        res.classes.add("moved")
        return res
    if case.get("shared"):
        # a second System built from the same component objects is edited (its 0 V / phase-limited source replaced by a live one of the same class,
        # a leaf deleted); the first, never-edited system still has its dead rail
        from ..sysmodel import build_shared_pair, observe, make_comp
        from ..common import quiet_call
        A, B, objs = build_shared_pair(spec)
        srcc = copy.deepcopy(spec["comps"][0]) if False else __import__("copy").deepcopy(spec["comps"][0])
        srcc["a"]["vo"] = 4.2
        try:
            quiet_call(B.solve)
            B.change_comp(srcc["n"], comp=make_comp(srcc))
            leaves = [c["n"] for c in spec["comps"] if c["k"] in ("PLoad", "ILoad", "RLoad")]
            if leaves:
                B.del_comp(leaves[-1])
            quiet_call(B.solve)
        except (RuntimeError, ValueError):
            pass
        try:
            df, _ = quiet_call(A.solve)
        except (RuntimeError, ValueError):
            return res
        except Exception as e:
            res.v(("C04.shared-objects-solve-raises", type(e).__name__), str(e)[:200])
            return res
        obs = observe(df)
        dd = resolve(spec)
        for ph in (spec["phases"] or [""]):
            phys.check_phase(res, spec, obs, ph, 25.0, WANT, dd)
        res.viol = [(("C04.other-system-edited",) + sig, det) for sig, det in res.viol]
        res.nontrivial = 1
        res.classes.add("shared")
        return res
    if case.get("oldfile"):
        # the system is saved, the file is relabelled as written by an OLDER release (which must load), reloaded, and the reloaded system analysed
        import json, os
        from ..sysmodel import build, observe
        from ..common import quiet_call, workdir
        from sysloss.system import System
        path = os.path.join(workdir("c04"), "old.json")
        build(spec).save(path)
        doc = json.load(open(path))
        doc["system"]["version"] = case["oldfile"]
        json.dump(doc, open(path, "w"))
        try:
            s2, _ = quiet_call(System.from_file, path)
            df, _ = quiet_call(s2.solve)
        except (RuntimeError,) :
            return res
        except Exception as e:
            res.v(("C04.old-file-raises", type(e).__name__), str(e)[:200])
            return res
        obs = observe(df)
        dd = resolve(spec)
        for ph in (spec["phases"] or [""]):
            phys.check_phase(res, spec, obs, ph, 25.0, WANT, dd)
        res.viol = [(("C04.file-of-older-version",) + sig, det) for sig, det in res.viol]
        res.nontrivial = 1
        res.classes.add("oldfile")
        return res
    s, obs = phys.solve_and_check(res, spec, WANT, rej=case.get("rej", False))
    if obs is not None and fam == "phase" and spec.get("phases") and case.get("chain"):
        # tight iteration budgets: for EVERY budget either RuntimeError or a table in which every phase is converged and the dead rail dead
        for mi in (2, 4, 6, 9, 13):
            sub = Res()
            s2, obs2 = phys.solve_and_check(sub, spec, WANT, solve_kw=dict(maxiter=mi))
            for sig, det in sub.viol:
                res.v(("C04.maxiter",) + sig, "maxiter=%d: %s" % (mi, det))
            if sub.viol:
                break
    if obs is not None and fam == "phase" and spec.get("phases") and case["pc"] in (["a"], ["zz"]) and (len(spec["comps"]) <= 3 or len(case["f"]) == 1):
        # the same system with a rail on every non-load component: a dead rail must be reported at 0 V in exactly the phases in which it is dead
        import copy
        from ..sysmodel import LOADS, build, g
        from ..common import quiet_call
        sp2 = copy.deepcopy(spec)
        for c in sp2["comps"]:
            if c["k"] not in LOADS:
                c["r"] = "r_" + c["n"]
        try:
            rr, _ = quiet_call(build(sp2).rail_rep)
            for r in rr.to_dict("records"):
                ph, own = r.get("Phase", ""), r["Rail"][2:]
                ev = g(obs[(ph, own)], "Vout (V)")
                if not (g(r, "Voltage (V)") == ev or (ev != 0 and abs(g(r, "Voltage (V)") - ev) <= 1e-5 * abs(ev))):  # separate solve: exact 0 for a dead rail, solver tolerance for a live one
                    res.v(("C04.rail-voltage", "dead" if ev == 0 else "live"), "phase %r rail of %s reported at %r V, its owner outputs %r V" % (ph, own, g(r, "Voltage (V)"), ev))
                if ev == 0 and any(g(r, c) != 0 for c in ("Current (A)", "Power (W)", "Loss (W)")):
                    res.v(("C04.dead-rail-carries",), "phase %r rail of %s: %r" % (ph, own, r))
        except Exception as e:
            res.v(("C04.rail_rep-raises", type(e).__name__), str(e))
    if obs is not None and res.stats["dead_rows"] >= 2 and (res.stats["live_rows"] + res.stats["sleep_rows"]) >= 1:
        res.nontrivial = 1
    res.classes.add("%s:dead=%s,sleep=%s" % (fam, min(res.stats["dead_rows"], 3), min(res.stats["sleep_rows"], 2)))
    return res


def gen_cases(tier):
    sd = seed()
    pals = [sd % 3] if tier == "quick" else [0, 1, 2]
    mid, deep = Trees(*SIG_MID), Trees(*SIG_DEEP)
    for pal in pals:
        for n in ((1, 2, 3) if tier == "quick" or pal != sd % 3 else (1, 2, 3, 4)):
            for f in mid.iter_forests(n):
                yield dict(fam="zero", f=f, pal=pal, pol=1 if n % 2 else -1)
                if n <= 2:
                    yield dict(fam="zero", f=f, pal=pal, pol=1, shared=True)
                spec = spec_from_forest(f, pal, 1, 0.37)
                for c in spec["comps"]:
                    if c["k"] in PHASE_LIST_KINDS:
                        for pc in (["a"], ["b"]):
                            yield dict(fam="phase", f=f, pal=pal, pol=1, srs=0.37, who=c["n"], pc=pc)
                        # listed for an undefined phase only (= dead in every phase), configured before / after the system phases
                        yield dict(fam="phase", f=f, pal=pal, pol=1, srs=0.37, who=c["n"], pc=["zz"], pc_first=(n % 2 == 0))
                        if n <= 2:
                            yield dict(fam="phase", f=f, pal=pal, pol=1, srs=0.37, who=c["n"], pc=["a"], nophase=True)
                            yield dict(fam="phase", f=f, pal=pal, pol=1, srs=0.37, who=c["n"], pc=["a"], reconf=True)
                            yield dict(fam="phase", f=f, pal=pal, pol=1, srs=0.37, who=c["n"], pc=["a"], sumname=True)
                            yield dict(fam="phase", f=f, pal=pal, pol=1, srs=0.37, who=c["n"], pc={"b": True})   # dict form of an active-phase list
                            for ver in ("1.0.0", "1.7.0", "0.9.9"):
                                yield dict(fam="phase", f=f, pal=pal, pol=1, srs=0.37, who=c["n"], pc=["a"], oldfile=ver)
                            yield dict(fam="phase", f=f, pal=pal, pol=1, srs=0.37, who=c["n"], pc=["b"], rej=True)
                            yield dict(fam="phase", f=f, pal=pal, pol=1, srs=0.37, who=c["n"], pc=["a"], bounce="rename")
                            yield dict(fam="phase", f=f, pal=pal, pol=1, srs=0.37, who=c["n"], pc=["b"], bounce="clear")
                        if n == 3 and c["k"] != "Source":
                            yield dict(fam="phase", f=f, pal=pal, pol=1, srs=0.37, who=c["n"], pc=["a"], move=True)
                        if tier != "quick":
                            yield dict(fam="phase", f=f, pal=pal, pol=-1, srs=0.0, who=c["n"], pc=["a", "c"], ph3=True)
        for n in ((4, 5) if tier == "quick" else (4, 5, 6)):
            for f in chains(deep, n):
                yield dict(fam="zero", f=f, pal=pal, pol=1)
                spec = spec_from_forest(f, pal, 1, 0.37)
                for c in spec["comps"]:
                    if c["k"] in PHASE_LIST_KINDS:
                        yield dict(fam="phase", f=f, pal=pal, pol=1, srs=0.37, who=c["n"], pc=["b"], chain=(n == 4))
                        if n == 4:
                            yield dict(fam="phase", f=f, pal=pal, pol=1, srs=0.37, who=c["n"], pc=["a"], chain=True)
        # nano- / micro-amp loads below the dead element: "zero" means exactly 0, not "below the solver's absolute tolerance"
        tiny = Trees(["RL", "CVc", "PSc", "LRc", "RMc"], ["ILn", "ILu", "IL"])
        for n in ((1, 2, 3) if tier == "quick" else (1, 2, 3, 4)):
            for f in tiny.iter_forests(n):
                if "ILn" not in str(f):
                    continue
                yield dict(fam="zero", f=f, pal=pal, pol=1 if n % 2 else -1)
                spec = spec_from_forest(f, pal, 1, 0.37)
                for c in spec["comps"]:
                    if c["k"] in PHASE_LIST_KINDS:
                        yield dict(fam="phase", f=f, pal=pal, pol=1, srs=0.37, who=c["n"], pc=["a"])
        for n1 in (1, 2):
            for f1 in mid.iter_forests(n1):
                for f2 in mid.iter_forests(1):
                    if str(f1).count("MX") + str(f2).count("MX") <= 1:
                        yield dict(fam="sib", f=f1, f2=f2, pal=pal)
        dead = [("S", "zero"), ("S", "inact"), ("SC", "zero"), ("SC", "inact-src"), ("SC", "inact-reg"), ("SH", "inact-reg")]
        for k in (1, 2, 3):
            for inputs in itertools.product(dead, repeat=k):
                for rs_list in (False, True):
                    yield dict(fam="mux", inputs=[list(x) for x in inputs], pal=pal, rs_list=rs_list)
        for rs_list in (False, True):
            for an in (False, True):
                yield dict(fam="muxrail", pal=pal, rs_list=rs_list, analyse=an)
        # a SLEEPING multi-input mux: it must draw exactly iis from its selected (first live) input, whichever position that has
        allopts = dead + [("S", "live"), ("SC", "live"), ("SH", "live")]
        for k in (2, 3):
            for inputs in itertools.product(allopts if k == 2 else allopts[::2], repeat=k):
                for mpc in (["a"], ["b"]):
                    yield dict(fam="mux", inputs=[list(x) for x in inputs], pal=pal, rs_list=True, mux_pc=mpc)
                if k == 2:   # negative rails: a dead first input beside a live NEGATIVE one
                    yield dict(fam="mux", inputs=[list(x) for x in inputs], pal=pal, rs_list=False, mux_pc=["a"], pol=-1)
                    yield dict(fam="mux", inputs=[list(x) for x in inputs], pal=pal, rs_list=False, pol=-1)


        for first in (("S", "inact"), ("SC", "inact-src"), ("SC", "inact-reg"), ("SH", "inact-reg")):
            for second in (("S", "live"), ("SC", "live"), ("SH", "live"), ("S", "inact")):
                for who in ("M", "LM", "PB", "CB", "OB"):
                    for pcl in (["a", "b"], ["a", "c"], ["b"], ["c"], ["b", "c"]):
                        yield dict(fam="mux", inputs=[list(first), list(second)], pal=pal, rs_list=True, ph3=[who, pcl])


def replay(doc):
    r = check_case(doc["case"])
    for sig, detail in r.viol:
        print("  ", sig, detail)
    return [s for s, _ in r.viol]


def main(tier):
    run = Run(PROP, tier, replay)
    run.map(check_case, gen_cases(tier), chunk=32, family="dead")
    run.require("refused-call-accepted" not in run.classes, "a call of the refused-edits menu was accepted: the rej family is vacuous")
    run.require(run.stats["dead_rows"] > 1000 and run.stats["sleep_rows"] > 100, "too few dead / sleeping rows")
    return run.finish(
        rule="E1: every tree of the mid alphabet n<=3 (4 thorough) and every chain of the deep alphabet to depth 5 (6) with (a) the source at 0 V, "
             "(b) each source/converter/regulator/switch/mux position in turn active in one phase only, (c) a dead source beside a live one, "
             "(d) a PMux all of whose 1..3 inputs are dead for each cause, and 2-/3-input muxes that themselves sleep in one phase over every live/dead input pattern. Oracle: exact zeros in every row whose Vin is 0, Iin==iis and P==L==iis*|Vin|, Vout==0 "
             "(e) three phases: first mux input live in one phase only, the mux or one element below it active in each 1-/2-subset of the phases (loads with per-phase tables). "
             "for the inactive element, C01 row laws for all remaining rows. non-trivial = >=2 dead rows and >=1 live or sleeping row in the same table.",
        assumptions=["one dead cause at a time (combinations are covered by C05/C06)", "palettes", "node bounds"])

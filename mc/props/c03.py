"""C03 -- solve() returns only converged, finite, physical steady states, else raises.
 A  settings: solvable trees x (vtol, itol) x maxiter menu; outcome in {RuntimeError, ValueError('Unstable'), table}; a table must be
    finite, reproduce itself under one more evaluation of every law within 10x the requested tolerance, keep every passive series
    element's polarity, and have been produced in <= maxiter+1 sweeps (sweeps counted by wrapping the instance's _fwd_prop).
 B  overload: heavy constant-current / constant-power loads behind too much series resistance at every position of every tree:
    must raise RuntimeError/ValueError or return a physical, converged table.
 C  liveness: every tree whose reference steady state (mc.sysmodel.refsolve) has all series drops <= 20 % must be solved with
    default settings (no exception)."""
import math
from ..common import Run, Res, quiet_call, seed, close
from ..sysmodel import (Trees, SIG_MID, SIG_DEEP, spec_from_forest, build, observe, resolve, g, PALETTES, refsolve, sgn, _r, with_phases, PH2, pc_options, LOADS, PHASE_LIST_KINDS)
from .. import phys

PROP = "C03"
TOLS = [(1e-6, 1e-6), (1e-3, 1e-9), (1e-9, 1e-3), (1e-2, 1e-2)]
MAXITER = [0, 1, 2, 3, 5, 20, 10000]
PASSIVE = ("Source", "RLoss", "VLoss", "PSwitch", "PMux", "Rectifier")


def heavy_letters(pal):
    P = PALETTES[pal]
    V, ki, kv = P["V"], P["ki"], P["kv"]
    R = _r(2.0 * V)  # ohms: 1 A through it drops 2V (more than the supply)
    return {
        "RLh": ("RLoss", dict(rs=R)),
        "VLh": ("VLoss", dict(vdrop=_r(1.5 * V))),
        "PSh": ("PSwitch", dict(rs=R, ig=1e-4)),
        "MXh": ("PMux", dict(rs=R, ig=1e-4)),
        "RMh": ("Rectifier", dict(vdrop=0.0, rs=R, ig=1e-4)),
        "RDh": ("Rectifier", dict(vdrop=_r(0.8 * V))),
        "ILh": ("ILoad", dict(ii=1.0)),
        "PLh": ("PLoad", dict(pwr=_r(3.0 * V))),
        "ROh": ("RLoad", dict(rs=_r(0.01 * V))),
        # loads whose NOMINAL value is an overload but whose configured phase / sleep values are light (liveness with phases)
        "ILp": ("ILoad", dict(ii=1.0, iis=_r(1e-4 * ki))),
        "PLp": ("PLoad", dict(pwr=_r(3.0 * V), pwrs=_r(1e-4 * kv * ki))),
    }


OVER_I = ["RLh", "VLh", "PSh", "MXh", "RMh", "RDh", "RL", "CVc", "LRc"]
OVER_L = ["ILh", "PLh", "ROh", "IL"]


def physical(res, spec, obs, phases, vtol=1e-6):
    d = resolve(spec)
    for ph in phases:
        for name, rec in d.items():
            k = rec["k"]
            if k not in PASSIVE:
                continue
            r = obs.get((ph, name))
            if r is None:
                continue
            vin, vout = g(r, "Vin (V)"), g(r, "Vout (V)")
            ref = rec["a"]["vo"] if k == "Source" else vin
            tag = phys.src_tags(rec) if k == "Source" else []
            if k == "Rectifier":
                if vout < 0:
                    res.v(("C03.invert", k), "%s Vout %r" % (name, vout))
            elif vout * ref < 0:
                res.v(("C03.invert", k, *tag), "%s Vin/nominal %r Vout %r" % (name, ref, vout))
            if k == "Rectifier" and rec["a"].get("vdrop", 0.0) != 0 and vin != 0:
                from ..sysmodel import par
                drop = 2 * par(rec["a"]["vdrop"], g(r, "Iout (A)"), vin)
                if abs(vin) - drop <= 0:  # the bridge has no headroom: abs() must not turn the flipped sign into a "valid" output
                    res.v(("C03.invert", k, "collapsed"), "%s |Vin| %r but two diode drops are %r; Vout %r" % (name, abs(vin), drop, vout))
            if abs(vout) > abs(ref) * (1 + 10 * vtol) + 1e-6:  # the row's Vin and Vout may stem from successive iterates
                res.v(("C03.amplify", k, *tag), "%s Vin/nominal %r Vout %r" % (name, ref, vout))


def run_one(res, spec, vtol, itol, maxiter, tag, holes=None):
    from ..sysmodel import build_holes
    s = build(spec) if not holes else build_holes(spec, analyse=(holes == "analysed"))
    cnt = [0]
    orig = s._fwd_prop

    def counting(*a, **k):
        cnt[0] += 1
        return orig(*a, **k)

    s._fwd_prop = counting  # instance attribute: harness-side sweep counter
    # record the last two iterates of every phase: the returned state must satisfy the documented stopping rule for the REQUESTED tolerances
    import numpy as np
    hist_v, hist_i, finished = [], [], []
    orig_back, orig_init = s._back_prop, s._sys_init

    def rec_init(*a, **k):
        if hist_v:
            finished.append((list(hist_v), list(hist_i)))
        del hist_v[:]
        del hist_i[:]
        r = orig_init(*a, **k)
        hist_v.append(np.array(r[0], dtype=float))
        hist_i.append(np.array(r[1], dtype=float))
        return r

    def counting2(*a, **k):
        r = counting(*a, **k)
        hist_v.append(np.array(r[0], dtype=float))
        del hist_v[:-2]
        return r

    def rec_back(*a, **k):
        r = orig_back(*a, **k)
        hist_i.append(np.array(r, dtype=float))
        del hist_i[:-2]
        return r

    s._fwd_prop, s._back_prop, s._sys_init = counting2, rec_back, rec_init
    kw = {}
    if vtol is not None:
        kw = dict(vtol=vtol, itol=itol, maxiter=maxiter)
    nph = max(1, len(spec.get("phases") or {}))
    res.stats["transitions"] += len(spec["comps"]) + 1
    try:
        df, _ = quiet_call(s.solve, **kw)
    except RuntimeError as e:
        res.classes.add(tag + ":RuntimeError")
        out = "RuntimeError"
        df = None
    except ValueError as e:
        if "Unstable" not in str(e):
            res.v(("C03.exception", "ValueError"), str(e))
            return "bad"
        res.classes.add(tag + ":Unstable")
        out = "Unstable"
        df = None
    except Exception as e:
        res.v(("C03.exception", type(e).__name__), str(e))
        return "bad"
    mi = 10000 if vtol is None else maxiter
    if cnt[0] > (mi + 1) * nph:
        res.v(("C03.sweeps",), "%d sweeps with maxiter=%d" % (cnt[0], mi))
    if df is None:
        return out
    res.classes.add(tag + ":table")
    finished.append((list(hist_v), list(hist_i)))
    import inspect
    sig_ = inspect.signature(s.solve).parameters   # default run: the tolerances in force are the documented defaults of solve()
    dflt = (sig_["vtol"].default, sig_["itol"].default)
    vt_, it_ = dflt if vtol is None else (vtol, itol)
    for pv, pi in finished:
        if len(pv) == 2 and len(pi) == 2:
            if not np.all(np.abs(pv[0] - pv[1]) <= 1e-8 + vt_ * np.abs(pv[1]) * (1 + 1e-9)):
                res.v(("C03.stopped-before-voltages-settled",), "vtol=%g: last two voltage iterates %r %r" % (vt_, pv[0].tolist(), pv[1].tolist()))
            if not np.all(np.abs(pi[0] - pi[1]) <= 1e-8 + it_ * np.abs(pi[1]) * (1 + 1e-9)):
                res.v(("C03.stopped-before-currents-settled",), "itol=%g: last two current iterates %r %r" % (it_, pi[0].tolist(), pi[1].tolist()))
    obs = observe(df)
    res.stats["traces"] += 1
    vt, it = dflt if vtol is None else (vtol, itol)
    rt = 10.0 * (vt + it)
    sub = Res()
    phases = list(spec["phases"]) if spec.get("phases") else [""]
    for ph in phases:
        phys.check_phase(sub, spec, obs, ph, 25.0, ("C01",), law_rt=rt, law_at=1e-6)
    for sig, det in sub.viol:
        if sig[0] == "C03.nonfinite":
            res.v(sig, det)
        elif sig[0] in ("C01.law-v", "C01.law-i", "C01.iout", "C01.vin"):
            res.v(("C03.residual", sig[0][4:], *sig[1:]), "vtol=%g itol=%g maxiter=%s: %s" % (vt, it, mi, det))
    physical(res, spec, obs, phases, vt)
    return "table"


def check_case(case):
    res = Res()
    fam = case["fam"]
    if fam == "spread":
        from .c01 import spread_spec
        spec = spread_spec(case["depth"], case["heavy"], case["micro"], case["pol"])
        outs = set()
        for vt, it in TOLS[:2]:
            for mi in (20, 10000):
                outs.add(run_one(res, spec, vt, it, mi, "settings"))
        outs.add(run_one(res, spec, None, None, None, "settings"))
        res.nontrivial = 1
        return res
    if fam == "dead":   # every source at 0 V: the table is all zeros (converged), whatever the start vectors of the solver were
        spec = spec_from_forest(case["f"], case["pal"], 1, 0.37, src_vo=0.0)
        o = run_one(res, spec, None, None, None, "dead")
        if o != "table":
            res.v(("C03.liveness", o, "dead"), "a system without any live source has the all-zero steady state but solve() -> %s" % o)
        res.nontrivial = 1
        return res
    if fam == "muxneg":   # a multi-input mux whose per-input resistances are written with a negative sign: still a passive element
        from ..muxsys import mux_spec
        spec = mux_spec([tuple(x) for x in case["inputs"]], case["pal"], "neg", below="std")
        o = run_one(res, spec, None, None, None, "muxneg")
        res.nontrivial = 1
        return res
    if fam == "huge":   # healthy systems at extreme magnitudes (megavolts / mega-amps, micro-ohms): a steady state with a 0.1 % drop exists and must be found
        V, I = case["V"], case["I"]
        spec = dict(name="huge", phases=None, comps=[
            dict(n="S", k="Source", a=dict(vo=V * case["pol"], rs=0.0), p=[], g="", r=""),
            dict(n="R", k="RLoss", a=dict(rs=_r(1e-3 * V / I)), p=["S"], g="", r=""),
            dict(n="L", k=case["load"], a=(dict(rs=_r(V / I)) if case["load"] == "RLoad" else (dict(ii=I) if case["load"] == "ILoad" else dict(pwr=_r(V * I)))), p=["R"], g="", r="")])
        o = run_one(res, spec, None, None, None, "huge")
        if o != "table":
            res.v(("C03.liveness", o, "huge"), "V=%g I=%g %s: a steady state with a 0.1 %% series drop exists but solve() -> %s" % (V, I, case["load"], o))
        res.nontrivial = 1
        return res
    extra = heavy_letters(case["pal"]) if fam in ("over", "livep") else None
    if case.get("micro"):   # the 1 V / sub-milliamp regime with steep 2-D tables (see sysmodel.micro_letters)
        from ..sysmodel import micro_letters
        spec = spec_from_forest(case["f"], case["pal"], case["pol"], case["srs"], src_vo=1.0, extra=micro_letters())
    else:
        spec = spec_from_forest(case["f"], case["pal"], case["pol"], case["srs"], extra=extra)
    if case.get("who"):
        spec = with_phases(spec, PH2, {case["who"]: case["pc"]})
    if fam == "settings":
        outs = set()
        for vt, it in TOLS:
            for mi in MAXITER:
                outs.add(run_one(res, spec, vt, it, mi, "settings"))
        res.nontrivial = 1 if len(outs) >= 2 else 0
    elif fam == "over":
        o = run_one(res, spec, None, None, None, "over", holes=case.get("holes"))
        res.nontrivial = 1 if o in ("RuntimeError", "Unstable") else 0
    elif fam == "livep":
        # every PHASE has a modest-drop steady state (the loads' nominal values, which no phase uses, would be an overload)
        P = PALETTES[case["pal"]]
        assign = {}
        for c in spec["comps"]:
            if c["n"].startswith("ILp"):
                assign[c["n"]] = {"a": _r(0.004 * P["ki"])}
            elif c["n"].startswith("PLp"):
                assign[c["n"]] = {"a": _r(0.004 * P["ki"] * P["V"])}
        if case.get("offheavy"):
            # the element above the heavy load is switched OFF in phase b, where the load table asks for an overload current: the phase's
            # steady state is simply "switch open, load at 0 A"
            dd0 = resolve(spec)
            for c in spec["comps"]:
                if c["n"].startswith("ILp") and dd0[dd0[c["n"]]["parents"][0]]["k"] in PHASE_LIST_KINDS and dd0[c["n"]]["parents"][0] != "S":
                    assign[c["n"]] = {"a": assign[c["n"]]["a"], "b": 1.0}
                    assign[dd0[c["n"]]["parents"][0]] = ["a"]
        PHX = PH2 if not case.get("ph3") else {"a": 1.0, "b": 3.0, "c": 3.0}   # ph3: phases b and c are electrically identical (sleep values)
        spec = with_phases(spec, PHX, assign)
        ok = True
        for ph in PHX:
            v, i, io, conv, maxdrop = refsolve(spec, ph)
            ok = ok and conv and maxdrop <= 0.2 and all(math.isfinite(x) for x in v.values())
        if ok:
            res.stats["modest-phased"] += 1
            o = run_one(res, spec, None, None, None, "livep")
            if o != "table":
                res.v(("C03.liveness", o, "phased"), "every phase has a reference steady state with modest drops (loads are light in every phase) but solve() -> %s" % o)
            res.nontrivial = 1
        else:
            res.classes.add("livep:not-modest")
    elif fam == "live":
        v, i, io, conv, maxdrop = refsolve(spec)
        if conv and maxdrop <= 0.2 and all(math.isfinite(x) for x in v.values()):
            res.stats["modest"] += 1
            o = run_one(res, spec, None, None, None, "live")
            if o != "table":
                res.v(("C03.liveness", o), "reference steady state exists (max series drop %.3f) but solve() -> %s" % (maxdrop, o))
            else:
                # second opinion: the returned state is the reference steady state
                s = build(spec)
                df, _ = quiet_call(s.solve)
                obs = observe(df)
                for n in v:
                    if not close(g(obs[("", n)], "Vout (V)"), v[n], 1e-4, 1e-6):
                        res.v(("C03.steady-state", resolve(spec)[n]["k"]), "%s Vout %r reference %r" % (n, g(obs[("", n)], "Vout (V)"), v[n]))
                        break
            res.nontrivial = 1
        else:
            res.classes.add("live:not-modest")
    return res


def chains(T, n):
    for f in T.iter_forests(n):
        t, ok = f, True
        while t:
            if len(t) != 1:
                ok = False
                break
            t = t[0][1]
        if ok:
            yield f


def gen_cases(tier):
    sd = seed()
    pals = [sd % 3] if tier == "quick" else [0, 1, 2]
    mid, deep = Trees(*SIG_MID), Trees(*SIG_DEEP)
    over = Trees(OVER_I, OVER_L, max_one=("MXh",))
    for pal in pals:
        # A settings
        for n in ((1, 2) if tier == "quick" else (1, 2, 3)):
            for f in mid.iter_forests(n):
                yield dict(fam="settings", f=f, pal=pal, pol=1, srs=0.37)
        for n in ((3,) if tier == "quick" else (3, 4)):
            for f in deep.iter_forests(n):
                yield dict(fam="settings", f=f, pal=pal, pol=-1 if n == 3 else 1, srs=0.0)
        # with phases: one component active / loaded in the FIRST phase only, so the phases need different numbers of sweeps
        for n in ((2,) if tier == "quick" else (2, 3)):
            for f in mid.iter_forests(n):
                sp = spec_from_forest(f, pal, 1, 0.37)
                for c in sp["comps"][1:]:
                    if c["k"] in LOADS or c["k"] in PHASE_LIST_KINDS:
                        yield dict(fam="settings", f=f, pal=pal, pol=1, srs=0.37, who=c["n"], pc=pc_options(c, PH2, False)[1])
        for n in ((4, 5) if tier == "quick" else (5, 6, 7)):
            for f in chains(deep, n):
                yield dict(fam="settings", f=f, pal=pal, pol=1, srs=0.37)
        for depth in (2, 3, 4, 5, 6):
            for heavy in (0.5, 20.0):
                for micro in (2e-6, 2e-5):
                    yield dict(fam="spread", depth=depth, heavy=heavy, micro=micro, pol=1, pal=pal)
        # B overload at every position
        for n in (2, 3):      # overloads in systems reached through an edit history (index re-use), with an analysis in the middle
            for f in over.iter_forests(n):
                yield dict(fam="over", f=f, pal=pal, pol=1, srs=0.0, holes="analysed")
        for n in (1, 2, 3):   # an overloaded mux / switch that carries a phase list and is ACTIVE: the guard must still fire
            for f in over.iter_forests(n):
                sp = spec_from_forest(f, pal, 1, 0.0, extra=heavy_letters(pal))
                for c in sp["comps"][1:]:
                    if c["k"] in ("PMux", "PSwitch") and c["n"].startswith(("MXh", "PSh")):
                        yield dict(fam="over", f=f, pal=pal, pol=1, srs=0.0, who=c["n"], pc=["a", "b"])
        for n in ((1, 2, 3) if tier == "quick" or pal != sd % 3 else (1, 2, 3, 4)):
            for f in over.iter_forests(n):
                for pol, srs in ((1, 0.0), (1, _r(2.0 * PALETTES[pal]["V"])), (-1, 0.0), (-1, 0.37)):
                    yield dict(fam="over", f=f, pal=pal, pol=pol, srs=srs)
        # drop tables written with negative values: a passive element must not amplify
        from ..sysmodel import SIG_NEGTAB
        for n in (1, 2, 3):
            for f in Trees(*SIG_NEGTAB).iter_forests(n):
                if "m" in str(f) or "LRq" in str(f):
                    for pol in (1, -1):
                        yield dict(fam="live", f=f, pal=pal, pol=pol, srs=0.0)
        from ..sysmodel import SIG_MICRO
        for n in (1, 2, 3):
            for f in Trees(*SIG_MICRO).iter_forests(n):
                yield dict(fam="live", f=f, pal=pal, pol=1, srs=50.0, micro=True)
                if n <= 2:
                    yield dict(fam="settings", f=f, pal=pal, pol=1, srs=50.0, micro=True)
        if pal == pals[0]:
            for V in (1.1e3, 1.1e6, 3.0e7, 48.0, 1e-3):
                for I in (1.0, 2.5e6, 1e-6):
                    for load in ("RLoad", "ILoad", "PLoad"):
                        for pol in (1, -1):
                            yield dict(fam="huge", V=V, I=I, load=load, pol=pol, pal=pal)
        # C liveness
        livep = Trees(["RLh", "PSh", "MXh", "RMh", "RL", "CVc", "LRc"], ["ILp", "PLp", "IL"], max_one=("MXh",))
        for n in ((1, 2, 3) if tier == "quick" else (1, 2, 3, 4)):
            for f in livep.iter_forests(n):
                if "ILp" in str(f) or "PLp" in str(f):
                    yield dict(fam="livep", f=f, pal=pal, pol=1, srs=0.0)
                    if "ILp" in str(f) and n >= 2:
                        yield dict(fam="livep", f=f, pal=pal, pol=1, srs=0.0, offheavy=True)
                    if n <= 2:
                        yield dict(fam="livep", f=f, pal=pal, pol=1, srs=0.0, ph3=True)
        from ..muxsys import INPUT_OPTS
        import itertools as _it
        for n in (1, 2):
            for f in mid.iter_forests(n):
                yield dict(fam="dead", f=f, pal=pal, pol=1, srs=0.37)
        for inputs in _it.product(INPUT_OPTS, repeat=2):
            yield dict(fam="muxneg", inputs=[list(x) for x in inputs], pal=pal, pol=1, srs=0.0)
        for n in ((1, 2, 3) if tier == "quick" or pal != sd % 3 else (1, 2, 3, 4)):
            for f in mid.iter_forests(n):
                yield dict(fam="live", f=f, pal=pal, pol=1, srs=0.37)
        for n in ((5,) if tier == "quick" or pal != sd % 3 else (5, 6)):
            for f in deep.iter_forests(n):
                yield dict(fam="live", f=f, pal=pal, pol=1, srs=0.37)


def replay(doc):
    r = check_case(doc["case"])
    for sig, detail in r.viol:
        print("  ", sig, detail)
    return [s for s, _ in r.viol]


def main(tier):
    run = Run(PROP, tier, replay)
    run.map(check_case, gen_cases(tier), chunk=16, family="settings/overload/liveness")
    for c in ("settings:RuntimeError", "settings:table", "over:table", "live:table"):
        run.require(c in run.classes, "outcome class %s never observed" % c)
    run.require(run.stats["modest"] > 100, "liveness family empty")
    run.require(run.stats["modest-phased"] > 100, "phased liveness family empty")
    return run.finish(
        rule="A: trees (mid alphabet n<=2/3, deep alphabet n=3/4, chains to depth 5/7; mid n=2/3 with two phases and one component configured for the first phase only) x 4 tolerance pairs x 7 maxiter values; "
             "B: every tree n<=3/4 over an overload alphabet (series elements with 2V/A, heavy I/P/R loads) x source rs in {0, 2V/A} x polarity; "
             "C: every tree of the mid alphabet n<=3/4 and deep n=5/6 that the reference solver puts in the modest-drop family. "
             "non-trivial: A = the settings produced >=2 different outcomes for the same tree, B = the overload made solve() raise, C = member of the modest-drop family.",
        assumptions=["residual bound = 10 x (vtol+itol) relative + 1e-6 absolute (DESIGN A.5)", "palettes", "node bounds"])

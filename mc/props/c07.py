"""C07 -- Subsystem, total, average and energy rows are exact aggregates.
E1-order: multi-source forests with and without a PMux over a small alphabet x EVERY construction order (all linear extensions of the
structure that start with a source) x live/dead source patterns x phases x energy.  Oracle: domain of every row from the tree (through the
selected mux input), Subsystem/System total/System average/24h-energy rows recomputed from the component rows; all orders agree."""
import itertools, copy, json
from ..common import Run, Res, seed, quiet_call, close
from ..sysmodel import letters, PALETTES, PH2, build, build_holes, observe, resolve, g, has, _r
from .. import phys

PROP = "C07"


def linear_extensions(struct, cap=None):
    names = list(struct)
    out = []

    def rec(done, rem):
        if cap and len(out) >= cap:
            return
        if not rem:
            out.append(tuple(done))
            return
        for n in sorted(rem):
            if all(p in done for p in struct[n][1]):
                rec(done + [n], rem - {n})

    for first in sorted(n for n in names if struct[n][0] == "S"):
        rec([first], set(names) - {first})
    return out


def structures(tier):
    """name -> (letter, parents); letters: S source, R RLoss, C converter, I iload, P pload, M mux."""
    out, seen = [], set()

    def add(st):
        k = json.dumps(st, sort_keys=True)
        if k not in seen:
            seen.add(k)
            out.append(st)

    amax = 2
    for a in range(0, amax + 1):
        for b in (0, 1):
            for la in (0, 1):
                for mid in ("R", "C"):
                    for muxin in itertools.permutations(["A", "B", "S1x", "S2x"], 2):
                        st = {"S1": ("S", ()), "S2": ("S", ())}
                        prev = "S1"
                        for i in range(a):
                            st["A%d" % i] = (mid if i == 0 else "R", (prev,))
                            prev = "A%d" % i
                        enda, prev = prev, "S2"
                        for i in range(b):
                            st["B%d" % i] = ("R", (prev,))
                            prev = "B%d" % i
                        endb = prev
                        m = {"A": enda, "B": endb, "S1x": "S1", "S2x": "S2"}
                        ins = tuple(m[x] for x in muxin)
                        if len(set(ins)) < 2:
                            continue
                        st["M"] = ("M", ins)
                        st["LM"] = ("I", ("M",))
                        if la:
                            st["LA"] = ("P", (enda,))
                        add(st)
    # no mux: two or three sources with small trees
    shapes = [[], [("I", 0)], [("R", 0), ("I", 1)], [("C", 0), ("P", 1), ("I", 1)], [("R", 0), ("I", 0)], [("C", 0), ("R", 1), ("I", 2)]]
    for s1, s2 in itertools.product(shapes, repeat=2):
        if len(s1) + len(s2) == 0 or len(s1) + len(s2) > (5 if tier == "quick" else 6):
            continue
        st = {"S1": ("S", ()), "S2": ("S", ())}
        for tag, src, sh in (("a", "S1", s1), ("b", "S2", s2)):
            nm = [src]
            for j, (l, pi) in enumerate(sh):
                n = "%s%d" % (tag, j)
                st[n] = (l, (nm[pi],))
                nm.append(n)
        add(st)
    if tier != "quick":
        for s1, s2, s3 in itertools.product(shapes[:4], repeat=3):
            if len(s1) + len(s2) + len(s3) > 5 or not (s1 and s3):
                continue
            st = {"S1": ("S", ()), "S2": ("S", ()), "S3": ("S", ())}
            for tag, src, sh in (("a", "S1", s1), ("b", "S2", s2), ("c", "S3", s3)):
                nm = [src]
                for j, (l, pi) in enumerate(sh):
                    n = "%s%d" % (tag, j)
                    st[n] = (l, (nm[pi],))
                    nm.append(n)
            add(st)
    # single source (no Domain column, total carries Iout)
    add({"S1": ("S", ()), "a0": ("C", ("S1",)), "a1": ("I", ("a0",)), "a2": ("P", ("S1",))})
    return out


def to_spec(struct, order, pal, volts, phased, pol=1, prefix_names=False, nano=False):
    L = dict(letters(pal))
    if nano:   # nano-watt subsystems at currents the solver resolves (10 uV supplies, sub-milliamp loads): a few nW are a power like any other
        L["IL"] = ("ILoad", dict(ii=5e-4))
        L["PLx"] = ("PLoad", dict(pwr=2.3e-9, loss=True))
        L["CVc"] = ("Converter", dict(vo=4e-6, eff=0.8, iq=1e-5))
        L["RL"] = ("RLoss", dict(rs=1e-4))
        L["MX"] = ("PMux", dict(rs=1e-4, ig=1e-5))
    V = PALETTES[pal]["V"] if not nano else 2e-6 * PALETTES[pal]["V"]
    lk = {"R": "RL", "C": "CVc", "I": "IL", "P": "PLx", "M": "MX"}
    comps = []
    for n in order:
        l, ps = struct[n]
        if l == "S":
            j = int(n[1:])
            comps.append(dict(n=n, k="Source", a=dict(vo=_r(pol * volts[j - 1] * V * (1 + 0.11 * j)), rs=(_r(0.05 * j) if not nano else _r(1e-4 * j)) if pol > 0 else 0.0), p=[], g="", r="",
                              pc=(["a"] if (phased and j == 1) else None), lim=None))
        else:
            kind, args = L[lk[l]]
            a = copy.deepcopy(args)
            if "vo" in a:
                a["vo"] = a["vo"] * pol
            if l == "M":
                a["rs"] = [_r(args["rs"]), _r(args["rs"] * 2.5)]
            c = dict(n=n, k=kind, a=a, p=list(ps), g="", r="", pc=None, lim=None)
            if l == "M":
                c["plist"] = True
            if phased and l in ("I", "P") and n in ("LM", "a1", "b0", "LA"):
                key = "ii" if l == "I" else "pwr"
                c["pc"] = {"a": _r(a[key] * 0.5), "b": _r(a[key] * 1.5)} if n != "LA" else {"b": _r(a[key] * 0.3)}
            comps.append(c)
    sp = dict(name="ord", comps=comps, phases=dict(PH2) if phased else None)
    if prefix_names:  # source names one of which is a prefix of the other ("S1" / "S1x")
        ren = {"S2": "S1x"}
        for c in sp["comps"]:
            c["n"] = ren.get(c["n"], c["n"])
            c["p"] = [ren.get(q, q) for q in c["p"]]
    return sp


def energy(P, ph, phases):
    if not phases:
        return P * 24.0
    tot = sum(phases.values())
    return (phases[ph] / 3600.0) * P * (24 * 3600.0 / tot)


def eff(P, L):
    return 100.0 * abs((P - L) / P) if P > 0 else 100.0


def check_table(res, spec, obs, tol=1e-9):
    d = resolve(spec)
    phases = spec.get("phases") or {}
    srcs = [n for n in d if d[n]["k"] == "Source"]
    multi = len(srcs) > 1
    totals = {}
    for ph in (list(phases) if phases else [""]):
        sub = Res()
        rows = phys.check_phase(sub, spec, obs, ph, 25.0, ("C07",), d)
        res.viol += sub.viol
        if rows is None:
            return
        if multi and "Domain" not in obs["__cols__"]:
            res.v(("C07.no-domain-column",), "")
        for n in d:
            r = rows[n]
            if "24h energy (Wh)" in r and not close(g(r, "24h energy (Wh)"), energy(g(r, "Power (W)"), ph, phases), tol, 1e-15):
                res.v(("C07.row-energy", d[n]["k"]), "%s %s" % (ph, n))
        for sname in srcs:
            key = (ph, "Subsystem " + sname)
            if not multi:
                if key in obs:
                    res.v(("C07.subsystem-row-single-source",), "")
                continue
            if key not in obs:
                res.v(("C07.subsystem-missing",), "%s" % (key,))
                continue
            srow = obs[key]
            members = [n for n in d if d[n].get("_dom") == sname]
            el = sum(g(rows[n], "Loss (W)") for n in members)
            P = g(rows[sname], "Power (W)")
            if not close(g(srow, "Loss (W)"), el, tol, 1e-15):
                res.v(("C07.sub-loss",), "phase %r %s: Loss %r, members sum %r" % (ph, sname, g(srow, "Loss (W)"), el))
            if not close(g(srow, "Power (W)"), P, tol, 1e-15):
                res.v(("C07.sub-power",), "phase %r %s" % (ph, sname))
            if not close(g(srow, "Iout (A)"), g(rows[sname], "Iout (A)"), tol, 1e-15):
                res.v(("C07.sub-iout",), "phase %r %s" % (ph, sname))
            if not close(g(srow, "Vin (V)"), g(rows[sname], "Vin (V)"), tol, 1e-15):
                res.v(("C07.sub-vin",), "phase %r %s" % (ph, sname))
            if not close(g(srow, "Efficiency (%)"), eff(P, el), 1e-9, 1e-9) or g(srow, "Efficiency (%)") > 100 + 1e-9:
                res.v(("C07.sub-eff",), "phase %r %s: %r vs %r" % (ph, sname, g(srow, "Efficiency (%)"), eff(P, el)))
            if "24h energy (Wh)" in srow and not close(g(srow, "24h energy (Wh)"), energy(P, ph, phases), tol, 1e-15):
                res.v(("C07.sub-energy",), "phase %r %s" % (ph, sname))
            if el > 0:
                res.stats["lossy_subsystems"] += 1
        trow = obs.get((ph, "System total"))
        if trow is None:
            res.v(("C07.total-missing",), ph)
            continue
        TP = sum(g(rows[n], "Power (W)") for n in srcs)
        TL = sum(g(rows[n], "Loss (W)") for n in d)
        if not close(g(trow, "Power (W)"), TP, tol, 1e-15):
            res.v(("C07.total-power",), "phase %r: %r vs %r" % (ph, g(trow, "Power (W)"), TP))
        if not close(g(trow, "Loss (W)"), TL, tol, 1e-15):
            res.v(("C07.total-loss",), "phase %r: %r vs %r" % (ph, g(trow, "Loss (W)"), TL))
        if not close(g(trow, "Efficiency (%)"), eff(TP, TL), 1e-9, 1e-9) or g(trow, "Efficiency (%)") > 100 + 1e-9:
            res.v(("C07.total-eff",), "phase %r" % ph)
        if not multi and not close(g(trow, "Iout (A)"), g(rows[srcs[0]], "Iout (A)"), tol, 1e-15):
            res.v(("C07.total-iout",), "phase %r" % ph)
        if multi and has(trow, "Iout (A)"):
            res.v(("C07.total-iout-multi",), "phase %r" % ph)
        if "24h energy (Wh)" in trow and not close(g(trow, "24h energy (Wh)"), energy(TP, ph, phases), tol, 1e-15):
            res.v(("C07.total-energy",), "phase %r" % ph)
        totals[ph] = (TP, TL, eff(TP, TL), g(rows[srcs[0]], "Iout (A)"), g(trow, "24h energy (Wh)"))
    if phases:
        arow = obs.get(("", "System average"))
        if arow is None:
            res.v(("C07.average-missing",), "")
            return
        T = sum(phases.values())
        w = lambda j: sum(totals[ph][j] * phases[ph] for ph in phases) / T
        for j, col in ((0, "Power (W)"), (1, "Loss (W)"), (2, "Efficiency (%)")):
            if not close(g(arow, col), w(j), tol, 1e-15):
                res.v(("C07.average", col), "%r vs %r" % (g(arow, col), w(j)))
        if not multi and not close(g(arow, "Iout (A)"), w(3), tol, 1e-15):
            res.v(("C07.average", "Iout"), "")
        if "24h energy (Wh)" in arow:
            if not close(g(arow, "24h energy (Wh)"), w(0) * 24.0, tol, 1e-15):
                res.v(("C07.average-energy",), "")
            if not close(sum(totals[ph][4] for ph in phases), g(arow, "24h energy (Wh)"), tol, 1e-12):
                res.v(("C07.energy-sum",), "sum of phase energies %r, average energy %r" % (sum(totals[ph][4] for ph in phases), g(arow, "24h energy (Wh)")))
        res.stats["averages"] += 1


def check_case(case):
    res = Res()
    if case.get("fam") == "c05edit":
        # the edit histories of C05 (the series element in front of one mux input deleted with del_childs=False, an input renamed, a rail handed over):
        # afterwards every row is attributed to the source that powers it under the DECLARED input order (Domain column, Subsystem rows exist for it)
        from . import c05
        old = c05.WANT
        c05.WANT = ("C07",)
        try:
            r5 = c05.check_case(case["case"])
        finally:
            c05.WANT = old
        for sig, det in r5.viol:
            if len(sig) > 1 and str(sig[1]).startswith("C07."):
                res.v(("C07.after-edit",) + tuple(sig[1:]), det)
        res.stats.update(r5.stats)
        res.stats["orders"] += 1
        res.nontrivial = r5.nontrivial
        return res
    struct = {k: (v[0], tuple(v[1])) for k, v in case["struct"].items()}
    orders = linear_extensions(struct)
    ref = None
    for o in orders:
        spec = to_spec(struct, o, case["pal"], case["volts"], case["phased"], case.get("pol", 1), case.get("prefix", False), nano=case.get("nano", False))
        if case.get("blank_phase") and spec.get("phases"):   # the empty string as a phase name (accepted by set_sys_phases)
            ren = {"a": ""}
            spec["phases"] = {ren.get(k, k): v for k, v in spec["phases"].items()}
            for c in spec["comps"]:
                if isinstance(c.get("pc"), list):
                    c["pc"] = [ren.get(x, x) for x in c["pc"]]
                elif isinstance(c.get("pc"), dict):
                    c["pc"] = {ren.get(k, k): v for k, v in c["pc"].items()}
        if case.get("scale") and spec.get("phases"):   # load cycles of exactly 24 h and of a week (fewer than one cycle per day)
            spec["phases"] = {k: v * case["scale"] for k, v in spec["phases"].items()}
        s = build(spec) if not case.get("holes") else build_holes(spec, analyse=True)   # holes: the same structure through an edit history
        res.stats["transitions"] += len(o) + 1
        try:
            df, _ = quiet_call(s.solve, energy=case["energy"])
        except Exception as e:
            res.v(("C07.solve-exception", type(e).__name__), "%s order %s" % (e, o))
            continue
        if case.get("move"):
            # after a first analysis a leaf load is deleted and added again under ANOTHER parent (same node and edge counts, freed index re-used)
            from ..sysmodel import move_leaf
            d0 = resolve(spec)
            leaves = sorted(n for n in d0 if d0[n]["k"] in ("ILoad", "PLoad") and len(d0[n]["parents"]) == 1)   # sorted: the choice must not depend on the construction order
            tgt = sorted(n for n in d0 if d0[n]["k"] not in ("ILoad", "PLoad", "RLoad") and (not leaves or n != d0[leaves[0]]["parents"][0]))
            if leaves and tgt:
                newp = sorted(n for n in tgt if d0[n]["k"] == "Source")[-1:] or tgt[-1:]
                spec = move_leaf(s, spec, leaves[0], newp[0])
                df, _ = quiet_call(s.solve, energy=case["energy"])
                res.stats["transitions"] += 3
        if case.get("rename_src"):
            # after a first analysis the source(s) are replaced by identical ones with NEW names (change_comp): every aggregate follows the new names
            from ..sysmodel import make_comp
            ren = {}
            for c in spec["comps"]:
                if c["k"] == "Source":
                    ren[c["n"]] = "Z" + c["n"]
                    s.change_comp(c["n"], comp=make_comp(dict(c, n="Z" + c["n"])), group=c.get("g", ""), rail=c.get("r", ""))
                    if c.get("pc") is not None and spec.get("phases"):
                        s.set_comp_phases("Z" + c["n"], copy.deepcopy(c["pc"]))
            spec = copy.deepcopy(spec)
            for c in spec["comps"]:
                c["n"] = ren.get(c["n"], c["n"])
                c["p"] = [ren.get(q, q) for q in c["p"]]
            df, _ = quiet_call(s.solve, energy=case["energy"])
            res.stats["transitions"] += 3
        if case.get("rephase") and spec.get("phases"):
            # "after any edit history": the durations are changed after a first analysis; the aggregates must follow the NEW durations
            newph = {k: v * m for (k, v), m in zip(spec["phases"].items(), (3.0, 0.5, 2.0))}
            if case["rephase"] == "alias":   # the dict handed out by get_sys_phases() is edited and handed back (the very same object)
                live = s.get_sys_phases()
                for k_, v_ in newph.items():
                    live[k_] = v_
                s.set_sys_phases(live)
            else:
                s.set_sys_phases(dict(newph))
            spec = dict(spec, phases=newph)
            df, _ = quiet_call(s.solve, energy=case["energy"])
            res.stats["transitions"] += 2
        obs = observe(df)
        res.stats["traces"] += 1
        res.stats["orders"] += 1
        check_table(res, spec, obs)
        if spec.get("phases") and case["energy"] and o is orders[0]:
            # a single-phase call reports the same energies as the rows of that phase in the all-phase table
            for ph in spec["phases"]:
                d1, _ = quiet_call(s.solve, phase=ph, energy=True)
                o1 = observe(d1)
                for key, r in o1.items():
                    if key in ("__cols__", "__dups__"):
                        continue
                    r0 = obs.get(key)
                    if r0 is not None and "24h energy (Wh)" in r and not close(g(r, "24h energy (Wh)"), g(r0, "24h energy (Wh)"), 1e-9, 1e-15):
                        res.v(("C07.single-phase-energy",), "%s: solve(phase=%r, energy=True) gives %r, all-phase table %r" % (key, ph, g(r, "24h energy (Wh)"), g(r0, "24h energy (Wh)")))
                        break
        if ref is None:
            ref = obs
        else:
            for key, r in ref.items():
                if key in ("__cols__", "__dups__"):
                    continue
                r2 = obs.get(key)
                if r2 is None:
                    res.v(("C07.order-row-missing",), "%s" % (key,))
                    continue
                for col, val in r.items():
                    v2 = r2.get(col)
                    same = (val == v2) or (isinstance(val, float) and isinstance(v2, float) and close(val, v2, 1e-9, 1e-15))
                    if not same:
                        res.v(("C07.order-dependent", col), "%s %s: %r vs %r (order %s)" % (key, col, val, v2, o))
                        break
    if case.get("blank_phase"):
        res.viol = [(("C07.blank-phase-name",) + sig[:1], det) for sig, det in res.viol]
    res.nontrivial = 1 if (len(orders) >= 2 and res.stats["lossy_subsystems"] >= 2) else 0
    res.classes.add("orders=%d" % min(len(orders), 50))
    return res


def gen_cases(tier):
    pal = seed() % 3
    for st in structures(tier):
        ns = sum(1 for v in st.values() if v[0] == "S")
        pats = [(1, 1, 1), (0, 1, 1), (1, 0, 1)] if "M" in st else [(1, 1, 1), (1, 0, 1)]
        for volts in pats:
            for phased, en in ((False, False), (True, True)) if tier == "quick" else ((False, False), (False, True), (True, False), (True, True)):
                yield dict(struct={k: [v[0], list(v[1])] for k, v in st.items()}, pal=pal, volts=list(volts), phased=phased, energy=en)
            if len(st) <= 6:
                yield dict(struct={k: [v[0], list(v[1])] for k, v in st.items()}, pal=pal, volts=list(volts), phased=False, energy=False, prefix=True)
            if len(st) <= 6 and "M" in st:   # freed / re-used node indices (a component may have a lower index than its own source)
                yield dict(struct={k: [v[0], list(v[1])] for k, v in st.items()}, pal=pal, volts=list(volts), phased=False, energy=False, holes=True)
            if len(st) <= 5:  # phase durations edited between two analyses
                yield dict(struct={k: [v[0], list(v[1])] for k, v in st.items()}, pal=pal, volts=list(volts), phased=True, energy=True, rephase=True)
                yield dict(struct={k: [v[0], list(v[1])] for k, v in st.items()}, pal=pal, volts=list(volts), phased=True, energy=True, rephase="alias")
                for ph_ in (False, True):
                    yield dict(struct={k: [v[0], list(v[1])] for k, v in st.items()}, pal=pal, volts=list(volts), phased=ph_, energy=ph_, nano=True)
            if len(st) <= 5:
                for scale in (21600.0, 151200.0, 1e-3):
                    yield dict(struct={k: [v[0], list(v[1])] for k, v in st.items()}, pal=pal, volts=list(volts), phased=True, energy=True, scale=scale)
            if len(st) <= 4:
                yield dict(struct={k: [v[0], list(v[1])] for k, v in st.items()}, pal=pal, volts=list(volts), phased=True, energy=True, blank_phase=True)
            if len(st) <= 6 and "M" in st:
                for ph_ in (False, True):
                    yield dict(struct={k: [v[0], list(v[1])] for k, v in st.items()}, pal=pal, volts=list(volts), phased=ph_, energy=ph_, rename_src=True)
            if len(st) <= 6:
                yield dict(struct={k: [v[0], list(v[1])] for k, v in st.items()}, pal=pal, volts=list(volts), phased=False, energy=False, move=True)
            if "M" in st and len(st) <= 6:  # negative rails through the mux
                yield dict(struct={k: [v[0], list(v[1])] for k, v in st.items()}, pal=pal, volts=list(volts), phased=False, energy=False, pol=-1)


    from . import c05
    for c5 in c05.gen_edits(tier, pal):
        if c5.get("handover") or c5.get("rename") or (c5.get("delete") and not c5.get("remux") and not c5.get("reload")):
            yield dict(fam="c05edit", case=c5, pal=pal)


def replay(doc):
    r = check_case(doc["case"])
    for sig, detail in r.viol:
        print("  ", sig, detail)
    return [s for s, _ in r.viol]


def main(tier):
    run = Run(PROP, tier, replay)
    run.map(check_case, gen_cases(tier), chunk=4, family="orders")
    run.require(run.stats["orders"] > 1000 and run.stats["averages"] > 100, "too few construction orders / averages")
    return run.finish(
        rule="E1-order: two-source structures with a 2-input PMux (chains of 0..2 / 0..1 series elements, optional side load, every ordered pair of "
             "distinct attachment points as mux inputs), two- and three-source forests without mux, one single-source system; x live/0 V source patterns x "
             "(no phases | 2 phases with an inactive source and per-phase loads) x energy flag; EVERY linear extension (construction order) is built; small structures additionally with negative rails and with the phase durations edited between two analyses. "
             "Plus the C05 edit histories (series element in front of a mux input deleted with del_childs=False, input renamed, rail handed over) judged by the Domain oracle. "
             "states = structures x patterns, traces = tables checked (one per construction order). non-trivial = >=2 orders and >=2 subsystems with non-zero loss.",
        states=run.cases, traces=run.stats["orders"],
        assumptions=["small alphabet (RLoss, Converter, ILoad, PLoad-as-loss, PMux)", "<=6 non-source nodes", "one palette per run"])

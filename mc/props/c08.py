"""C08 -- the rail report is the solve() table summed per supply rail.
E1-rail: trees x EVERY subset of non-load components carrying a rail x children attached by name or by rail x phases, plus multi-input PMux
systems with rails on the inputs.  Oracle: rail_rep() recomputed from the solve() table of the same system."""
import itertools, copy
from ..common import Run, Res, seed, quiet_call, close
from ..sysmodel import (Trees, spec_from_forest, with_phases, PH2, build, observe, resolve, g, letters, LOADS, pc_options)
from ..muxsys import mux_spec, INPUT_OPTS

PROP = "C08"
I8 = ["RL", "CVc", "LRc", "PSc", "MX", "CVw"]
L8 = ["PL", "ILw", "ROx"]
L8M = ["PL", "ILw", "ILm"]   # with a sub-microamp consumer (rail sums far below 1e-6)


def extra_letters(pal):
    L = letters(pal)
    cv = copy.deepcopy(L["CVc"][1])
    il = copy.deepcopy(L["IL"][1])
    return {"CVw": ("Converter", dict(cv, vo=cv["vo"] * 0.9, limits={"ii": [0.0, 1e-7], "pl": [0.0, 1e-9], "tp": [-100.0, 40.0]})),   # tp: fine at 25 C, exceeded at 60 C
            "ILw": ("ILoad", dict(il, limits={"vi": [0.0, 1e-3]})),
            "ILm": ("ILoad", dict(ii=4.4649829743e-07))}


def railed_spec(case):
    if case["fam"] == "mux":
        return mux_spec([tuple(x) for x in case["inputs"]], case["pal"], case["rs_list"], rails=True, by_rail=case["by_rail"])
    spec = spec_from_forest(case["f"], case["pal"], case.get("pol", 1), 0.37 if case.get("pol", 1) > 0 else 0.0, extra=extra_letters(case["pal"]))
    for c in spec["comps"]:  # letters carry their limits inside the ctor kwargs
        if "limits" in c["a"]:
            c["lim"] = c["a"].pop("limits")
    owners = [c for c in spec["comps"] if c["k"] not in LOADS]
    for j, (c, bit) in enumerate(zip(owners, case["mask"])):
        if bit:
            c["r"] = "r_" + c["n"] if not case.get("blankrails") else (" " * (j + 1) if j % 2 == 0 else "\t" * (j + 1))   # rail names made of blanks / tabs only
    if case["by_rail"]:
        rails = {c["n"]: c["r"] for c in spec["comps"] if c["r"]}
        for c in spec["comps"]:
            c["p"] = [rails.get(p, p) for p in c["p"]]
    if case.get("who"):
        spec = with_phases(spec, PH2, {case["who"]: case["pc"]})
    if case.get("sumnames"):   # component names that begin with the words of the summary rows
        ren = {}
        for c, nm in zip(spec["comps"][1:], ["System controller", "Subsystem LDO", "System total load", "Subsystem S"]):
            ren[c["n"]] = nm
        for c in spec["comps"]:
            c["n"] = ren.get(c["n"], c["n"])
            c["p"] = [ren.get(q, q) for q in c["p"]]
    return spec


def tokens(cell):
    out = set()
    for part in str(cell).replace(",", " ").split():
        out.add(part)
    return out


def check_case(case):
    res = Res()
    spec = railed_spec(case)
    if case.get("recfg"):
        # the report is asked for, THEN the component's phase configuration is set (no other edit), then the report is asked for again with the same
        # arguments: the second report describes the system as it is now
        spec0 = copy.deepcopy(spec)
        for c in spec0["comps"]:
            if c["n"] == case["who"]:
                c["pc"] = None
        s = build(spec0)
        try:
            quiet_call(s.rail_rep, vtol=1e-6, itol=1e-6)
            if case["recfg"] == "twice":
                quiet_call(s.rail_rep, vtol=1e-6, itol=1e-6)
        except (RuntimeError, ValueError):
            pass
        s.set_comp_phases(case["who"], copy.deepcopy([c for c in spec["comps"] if c["n"] == case["who"]][0]["pc"]))
        res.classes.add("reconfigured-between-reports")
    else:
        s = build(spec)
    if case.get("rerail"):
        # an analysis, then the rail of one owner is changed through change_comp (children attached by name), then the report
        from ..sysmodel import make_comp
        quiet_call(s.solve)
        quiet_call(s.rail_rep)
        tgt = [c for c in spec["comps"] if c.get("r")]
        if tgt:
            t = tgt[-1]
            s.change_comp(t["n"], comp=make_comp(t), group=t.get("g", ""), rail="moved_" + t["n"])
            if t.get("pc") is not None and spec.get("phases"):
                s.set_comp_phases(t["n"], copy.deepcopy(t["pc"]))
            t["r"] = "moved_" + t["n"]
            res.classes.add("rerailed")
    if case.get("kind_change"):
        # change_comp across the load / non-load boundary with a rail argument: a load turned into a series element GETS the rail (and feeds a new
        # consumer attached by name); a childless series element turned into a load LOSES it (rail not applicable on loads)
        import warnings as _w
        from ..sysmodel import make_comp
        if case.get("analyse_first"):
            quiet_call(s.rail_rep)
        kids = {p for c in spec["comps"] for p in c["p"]}
        rails_ = {c["r"] for c in spec["comps"] if c.get("r")}
        P = letters(case["pal"])
        with _w.catch_warnings():
            _w.simplefilter("ignore")
            if case["kind_change"] == "load2series":
                t = [c for c in spec["comps"] if c["k"] in LOADS][-1:]
                if not t:
                    return res
                t = t[0]
                t["k"], t["a"], t["lim"], t["r"], t["pc"] = "RLoss", dict(rs=P["RL"][1]["rs"]), None, "kc_" + t["n"], None
                s.change_comp(t["n"], comp=make_comp(t), rail=t["r"])
                new = dict(n="kcL", k="ILoad", a=dict(P["IL"][1]), p=[t["n"]], g="", r="", pc=None, lim=None)
                s.add_comp(t["n"], comp=make_comp(new))
                spec["comps"].append(new)
            else:
                t = [c for c in spec["comps"] if c["k"] not in LOADS and c["k"] not in ("Source", "PMux") and c["n"] not in kids and c["n"] not in rails_ and (c.get("r") or "") not in kids][-1:]
                if not t:
                    return res
                t = t[0]
                t["k"], t["a"], t["lim"], t["r"], t["pc"] = "ILoad", dict(P["IL"][1]), None, "", None
                s.change_comp(t["n"], comp=make_comp(t), rail="kc_" + t["n"])
        res.classes.add("kind-changed")
    if case.get("rej"):   # every documented refusal (incl. a same-name change_comp whose rail collides) before the report
        from ..sysmodel import rejected_edits
        if rejected_edits(s, spec):
            res.classes.add("refused-call-accepted")
            return res
    res.stats["transitions"] += len(spec["comps"]) + 2
    try:
        df, _ = quiet_call(s.solve, vtol=1e-6, itol=1e-6)  # explicit, so that the two methods cannot differ through their defaults
    except (RuntimeError, ValueError) as e:
        res.classes.add("solve-raised")
        return res
    try:
        rr, _ = quiet_call(s.rail_rep, vtol=1e-6, itol=1e-6)
    except Exception as e:
        res.v(("C08.rail_rep-raises", type(e).__name__), str(e))
        return res
    res.stats["traces"] += 1
    obs = observe(df)
    d = resolve(spec)
    any_rail = any(c.get("r") for c in spec["comps"])
    if not any_rail:
        res.classes.add("no-rails")
        if rr is None or list(rr.columns) != list(df.columns) or not rr.astype(str).equals(df.astype(str)):
            res.v(("C08.no-rails-differs",), "rail_rep() != solve() without rails")
        return res
    if rr is None:
        res.v(("C08.returns-none",), "rails are defined but rail_rep() returned None")
        return res
    if "Rail" not in rr.columns or "Component" in rr.columns:
        res.v(("C08.not-a-rail-table",), "rails are defined but rail_rep() returned a table with columns %s" % list(rr.columns)[:6])
        return res
    phases = list(spec["phases"]) if spec.get("phases") else [""]
    got = {}
    for r in rr.to_dict("records"):
        key = (r.get("Phase", ""), r["Rail"])
        if key in got:
            res.v(("C08.duplicate-rail-row",), str(key))
        got[key] = r
    owner = {c["r"]: c["n"] for c in spec["comps"] if c.get("r")}
    exp_keys = set()
    from .. import phys
    for ph in phases:
        rows_ph = {n: obs[(ph, n)] for n in d}
        cons = {}
        for n, rec in d.items():
            r = rows_ph[n]
            # the supply rail of a row follows from the STRUCTURE: rail of its feeder (a PMux: of its selected input); a Source has none
            if rec["k"] == "Source":
                exp_in = ""
            else:
                sel = 0
                if len(rec["parents"]) > 1:
                    sel = phys.mux_selected(rec, rows_ph)
                    if sel is None:
                        sel = None
                exp_in = None if sel is None else d[rec["parents"][sel]].get("r", "")
            if exp_in is not None and "Rail in" in r and r["Rail in"] != exp_in:
                res.v(("C08.rail-in-label", rec["k"]), "phase %r %s: Rail in %r, its feeder's rail is %r" % (ph, n, r["Rail in"], exp_in))
            ri = exp_in if exp_in is not None else r.get("Rail in", "")
            if ri:
                cons.setdefault(ri, []).append(r)
        for rail, rows in cons.items():
            exp_keys.add((ph, rail))
            rw = got.get((ph, rail))
            if rw is None:
                res.v(("C08.rail-missing",), "phase %r rail %s feeds %d rows" % (ph, rail, len(rows)))
                continue
            ev = g(obs[(ph, owner[rail])], "Vout (V)")
            if g(rw, "Voltage (V)") != ev:
                res.v(("C08.voltage",), "phase %r rail %s: %r, owner %s outputs %r" % (ph, rail, g(rw, "Voltage (V)"), owner[rail], ev))
            for col, src in (("Current (A)", "Iin (A)"), ("Power (W)", "Power (W)"), ("Loss (W)", "Loss (W)")):
                e = sum(g(x, src) for x in rows)
                if not close(g(rw, col), e, 1e-12, 1e-18):
                    res.v(("C08.sum", col), "phase %r rail %s: %r, rows sum %r" % (ph, rail, g(rw, col), e))
            ew = set()
            for x in rows:
                ew |= tokens(x.get("Warnings", ""))
            if tokens(rw.get("Warnings", "")) != ew:
                res.v(("C08.warnings", "n-distinct=%d" % len(set(str(x.get("Warnings", "")) for x in rows))),
                      "phase %r rail %s: %r, rows warn %r" % (ph, rail, rw.get("Warnings", ""), sorted(ew)))
            if len(rows) >= 2:
                res.nontrivial = 1
            if any(x["Type"] == "PMUX" for x in rows):
                res.classes.add("rail-feeds-mux")
            if ew:
                res.classes.add("rail-with-warning")
    for key in got:
        if key not in exp_keys:
            res.v(("C08.spurious-rail-row",), str(key))
    # the ambient temperature reaches the report: per-rail warnings at ta=60 are those of solve(ta=60)
    if case.get("hot"):
        dfh, _ = quiet_call(s.solve, vtol=1e-6, itol=1e-6, ta=60.0)
        rrh, _ = quiet_call(s.rail_rep, vtol=1e-6, itol=1e-6, ta=60.0)
        oh = observe(dfh)
        for r in (rrh.to_dict("records") if rrh is not None and "Rail" in rrh.columns else []):
            ph = r.get("Phase", "")
            ew = set()
            for n in d:
                row = oh[(ph, n)]
                if row.get("Rail in", "") == r["Rail"]:
                    ew |= tokens(row.get("Warnings", ""))
            if tokens(r.get("Warnings", "")) != ew:
                res.v(("C08.warnings-at-other-ambient",), "ta=60 phase %r rail %s: %r, rows warn %r" % (ph, r["Rail"], r.get("Warnings", ""), sorted(ew)))
            if "tp" in ew:
                res.classes.add("tp-warning-at-60")
    # rail_rep(phase=p) lists exactly the rows of phase p of the all-phase report
    if spec.get("phases"):
        for ph in phases:
            try:
                r1, _ = quiet_call(s.rail_rep, phase=ph, vtol=1e-6, itol=1e-6)
            except Exception as e:
                res.v(("C08.single-phase-raises", type(e).__name__), str(e))
                continue
            one = {}
            if r1 is not None and "Rail" not in r1.columns:
                res.v(("C08.not-a-rail-table", "single-phase"), "rail_rep(phase=%r) returned columns %s" % (ph, list(r1.columns)[:6]))
                continue
            for r in (r1.to_dict("records") if r1 is not None else []):
                one[r["Rail"]] = r
            allp = {k[1]: v for k, v in got.items() if k[0] == ph}
            if set(one) != set(allp):
                res.v(("C08.single-phase-rails",), "phase %r: %r vs %r" % (ph, sorted(one), sorted(allp)))
            else:
                for rail in one:
                    for col in ("Voltage (V)", "Current (A)", "Power (W)", "Loss (W)"):
                        if one[rail][col] != allp[rail][col]:
                            res.v(("C08.single-phase-value", col), "phase %r rail %s: %r vs %r" % (ph, rail, one[rail][col], allp[rail][col]))
    return res


def gen_cases(tier):
    pal = seed() % 3
    T = Trees(I8, L8)
    for n in ((1, 2, 3) if tier == "quick" else (1, 2, 3, 4)):
        for f in T.iter_forests(n):
            spec = spec_from_forest(f, pal, 1, 0.37, extra=extra_letters(pal))
            owners = [c for c in spec["comps"] if c["k"] not in LOADS]
            for mask in itertools.product((0, 1), repeat=len(owners)):
                forms = [False, True] if any(mask) else [False]
                if n == 4:
                    forms = [True] if any(mask) else []
                for by_rail in forms:
                    yield dict(fam="tree", f=f, pal=pal, mask=list(mask), by_rail=by_rail)
                if any(mask) and n <= 3:
                    yield dict(fam="tree", f=f, pal=pal, mask=list(mask), by_rail=False, pol=-1)   # negative supply rails
                if any(mask) and n <= 2:
                    yield dict(fam="tree", f=f, pal=pal, mask=list(mask), by_rail=False, rerail=True)
                    yield dict(fam="tree", f=f, pal=pal, mask=list(mask), by_rail=True, hot=True)
                if any(mask) and n <= 3:
                    yield dict(fam="tree", f=f, pal=pal, mask=list(mask), by_rail=False, sumnames=True)
                if any(mask) and n <= 2:
                    yield dict(fam="tree", f=f, pal=pal, mask=list(mask), by_rail=True, blankrails=True)
                    yield dict(fam="tree", f=f, pal=pal, mask=list(mask), by_rail=False, rej=True)
                if n <= 2:
                    for kc in ("load2series", "series2load"):
                        for af in (False, True):
                            yield dict(fam="tree", f=f, pal=pal, mask=list(mask), by_rail=False, kind_change=kc, analyse_first=af)
                if n <= 2 or (tier != "quick" and n == 3):
                    for c in spec["comps"][1:]:
                        opts = pc_options(c, PH2, full=False)[1:2]
                        for pc in opts:
                            yield dict(fam="tree", f=f, pal=pal, mask=list(mask), by_rail=bool(any(mask)), who=c["n"], pc=pc)
                            if any(mask):
                                yield dict(fam="tree", f=f, pal=pal, mask=list(mask), by_rail=bool(any(mask)), who=c["n"], pc=pc, recfg="once")
    TM = Trees(["RL", "LRc", "PSc"], L8M)
    for n in (1, 2, 3):
        for f in TM.iter_forests(n):
            if "ILm" in str(f):
                spec = spec_from_forest(f, pal, 1, 0.37, extra=extra_letters(pal))
                owners = [c for c in spec["comps"] if c["k"] not in LOADS]
                for mask in itertools.product((0, 1), repeat=len(owners)):
                    if any(mask):
                        yield dict(fam="tree", f=f, pal=pal, mask=list(mask), by_rail=False)
    for k in (1, 2, 3):
        for inputs in itertools.product(INPUT_OPTS, repeat=k):
            if k == 3 and tier == "quick" and inputs[0][0] == "SH":
                continue
            for by_rail in (False, True):
                yield dict(fam="mux", inputs=[list(x) for x in inputs], pal=pal, rs_list=False, by_rail=by_rail)


def replay(doc):
    r = check_case(doc["case"])
    for sig, detail in r.viol:
        print("  ", sig, detail)
    return [s for s, _ in r.viol]


def main(tier):
    run = Run(PROP, tier, replay)
    run.map(check_case, gen_cases(tier), chunk=32, family="rails")
    for c in ("rail-feeds-mux", "rail-with-warning", "no-rails", "rerailed", "tp-warning-at-60", "kind-changed"):
        run.require(c in run.classes, "class %s never observed" % c)
    run.require("refused-call-accepted" not in run.classes, "a call of the refused-edits menu was accepted: the rej family is vacuous")
    return run.finish(
        rule="E1-rail: every tree n<=3 (4 thorough) over {RLoss, Converter, LinReg, PSwitch, 1-input PMux, a converter and a load that always warn, PLoad, loss-RLoad} x every "
             "subset of non-load components (incl. the source) owning a rail x children attached by name / by rail x (no phases | one phase-configured component); plus every "
             "1..3-input PMux system of C05 with rails on all inputs. Oracle recomputed from the solve() table: rail set per phase, voltage = owner's Vout, sums of Iin/Power/Loss, "
             "Also: the report asked for, then ONLY set_comp_phases(), then the report again with the same arguments. "
             "warning tokens as a set; no rails => identical to solve(); never None, never raises. non-trivial = a rail feeding >=2 rows.",
        assumptions=["rail Efficiency column not constrained by the statement", "one palette per run"])

"""C14 -- the tree stays well-formed under any sequence of edits.
E2: all edit histories up to depth d with deviation budget b from five seed states; the well-formedness invariant is evaluated on every
distinct reached state (registries + graph) -- accepted and rejected calls alike produce successors."""
from ..common import Run, Res, seed
from .. import e2

PROP = "C14"


def state_check(sd, hist):
    s, g = e2.replay(sd, hist)
    last = hist[-1][0] if hist else "init"
    return [((PROP + "." + e, last), "after %s" % (hist[-1] if hist else "seed")) for e in e2.invariant(s)]


def trans_check(sd, hist, op, s0, key0, s, key, idb, exc, memo):
    # a rejected call that nevertheless changed the state must also leave a well-formed system
    if exc is not None and key != key0:
        return [((PROP + "." + e, op[0], "after-rejected-call"), "rejected %s left the state changed" % (op,)) for e in e2.invariant(s)]
    return []


def replay(doc):
    c = doc["case"]
    v = state_check(c["seed"], c["hist"])
    if len(c["hist"]) > 0:
        s0, g0 = e2.replay(c["seed"], c["hist"][:-1])
        s, g = e2.replay(c["seed"], c["hist"][:-1])
        g2, exc = e2.step(s, g, c["hist"][-1])
        v = v + trans_check(c["seed"], c["hist"][:-1], c["hist"][-1], s0, e2.kfull(s0, g0, extra=False), s, e2.kfull(s, g2, extra=False), None, exc, {})
    for sig, det in v:
        print("  ", sig, det)
    return [tuple(str(x) for x in s) for s, _ in v]


def main(tier):
    run = Run(PROP, tier, replay)
    D, B = (3, 2) if tier == "quick" else (4, 2)
    if tier == "quick":  # depth 3 with budget 2 from the four seeds without a mux, budget 1 from the four mux seeds (their op menus are the largest)
        st = e2.explore(run, ["single", "rails", "phases", "freed", "blank", "chain"], 3, 2, letters="RIM", trans_check=trans_check, state_check=state_check, phase_ops=False)
        stb = e2.explore(run, ["mux", "mux3", "freed0", "rerail", "muxdeep", "railmux", "muxlist", "oldfile"], 3, 1, trans_check=trans_check, state_check=state_check, phase_ops=False)
        stc = e2.explore(run, ["mux", "mux3", "freed0", "rerail", "muxdeep", "railmux", "muxlist", "oldfile"], 2, 2, trans_check=trans_check, state_check=state_check, phase_ops=False)
        # component phase configurations (incl. EMPTY ones) interleaved with the edits; the Rectifier letter on the seed with two rectifiers in one path
        std = e2.explore(run, ["single", "phases", "mux"], 2, 2, letters="RI", trans_check=trans_check, state_check=state_check, phase_ops=True)
        ste = e2.explore(run, ["rect", "single"], 2, 2, letters="RDI", trans_check=trans_check, state_check=state_check, phase_ops=False)
        for o in (stb, stc, std, ste):
            for k in list(o):
                if k != "per_depth":
                    st[k] += o[k]
        st["per_depth_mux_seeds_b1"] = stb["per_depth"]
    else:
        st = e2.explore(run, list(e2.SEEDS), D, B, trans_check=trans_check, state_check=state_check, phase_ops=False, max_states=5000000)
    if tier != "quick":
        st2 = e2.explore(run, ["single", "mux"], 5, 1, letters="RIM", trans_check=trans_check, state_check=state_check, phase_ops=False, max_states=3000000)
        for k in ("states", "transitions", "rejected"):
            st[k] += st2[k]
        st["per_depth_d5b1"] = st2["per_depth"]
    run.cases = st["states"]
    run.nontrivial = st["states_via_cc"] + st["states_via_dc"]
    run.samples.append({"seed": "mux", "history": [["cc", "A1", "I", "A1", ""], ["dc", "S2", True]]})
    run.require(st["rejected"] > 100 and run.nontrivial > 100, "too few rejected calls / change-delete states")
    return run.finish(
        rule="E2: breadth-first search over ALL sequences of add_source / add_comp / change_comp / del_comp (single parent by name or by rail, parent lists, same / fresh / colliding "
             "names, none / fresh / own / colliding rails, kind changes among RLoss, Converter, ILoad, PMux, Source, both del_childs) of depth <= %d with deviation budget <= %d (quick: budget 2 from 4 seeds, budget 1 to depth 3 and budget 2 to depth 2 from the 4 mux seeds) from 10 seed "
             "states (single source; rails; two sources + PMux; three-input PMux with an input that is the child of another input; phases; freed node index; PMux at graph index 0; a rail handed over to another owner; names with leading / trailing blanks; a chain on which an analysis has already run)%s. States merged on K_full (graph with ordered adjacency + ordered registries + parameters + ghost free-index list). "
             "Invariant on every distinct state: unique names, unique rails, names and rails disjoint, roots = Sources, loads are leaves, only PMux multi-parent, <= 1 PMux, every link allowed by the "
             "parent's child types, registries keyed by exactly the live names. non-trivial = distinct states first reached through change_comp or del_comp." % (D, B, "" if tier == "quick" else "; plus depth 5, budget 1 over 3 letters from 2 seeds"),
        states=st["states"], transitions=st["transitions"], traces=st["transitions"],
        extra={"per_depth": st["per_depth"], "rejected_transitions": st["rejected"], "rejections_by_kind": {k[9:]: v for k, v in st.items() if k.startswith("rejected:")},
               "bound_completed": {"depth": D, "budget": B}},
        assumptions=["5-letter component alphabet", "successors of a violating state are not expanded"])

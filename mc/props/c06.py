"""C06 -- load phases: each phase is solved with each component's phase behaviour.
E1-phase: trees x ALL per-component phase configurations (None | every non-empty subset of the phases; lists for
sources/converters/regulators/switches/mux, value tables for loads) x phase sets.  Oracle: (a) per-phase law / dead-rail / energy rows with the
phase behaviour of the statement; (b) solve(phase=p) equals the rows of p cell for cell, unknown phase -> ValueError; (c) a system whose components
have no phase configuration gives the phase-free result in every phase; (d) projection: phase p of S equals the phase-free solution of the system
with every component replaced by its phase-p behaviour (built through the public API)."""
import itertools, copy, math
from ..common import Run, Res, seed, quiet_call, close
from ..sysmodel import (Trees, SIG_MID, SIG_DEEP, spec_from_forest, with_phases, pc_options, PH2, PH3, resolve, build, observe, g,
                        LOADS, PHASE_LIST_KINDS, eff_args, active)
from .. import phys

PROP = "C06"
WANT = ("C01", "C04", "TP")
CMPCOLS = ["Vin (V)", "Vout (V)", "Iin (A)", "Iout (A)", "Power (W)", "Loss (W)", "Efficiency (%)"]


def cells_equal(a, b):
    if a == b:
        return True
    try:
        return (isinstance(a, float) and isinstance(b, float) and math.isnan(a) and math.isnan(b)) or float(a) == float(b)
    except (TypeError, ValueError):
        return False


def projection(spec, ph):
    """phase-free spec whose components take their phase-ph behaviour; None if some element is inactive (covered by C04 rules)."""
    sp = copy.deepcopy(spec)
    sp["phases"] = None
    for c in sp["comps"]:
        if c["k"] in PHASE_LIST_KINDS and not active(c, ph):
            return None
        if c["k"] in LOADS:
            c["a"] = eff_args(c, ph)
            if c["k"] == "RLoad" and c["a"]["rs"] == 0:
                return None
        c["pc"] = None
        c.pop("pc0", None)
    sp.pop("bounce", None)
    return sp


def check_readd(case):
    """a configured subtree is deleted and re-added WITHOUT configuration: it must behave as never configured."""
    from ..sysmodel import make_comp
    res = Res()
    base = spec_from_forest(case["f"], case["pal"], 1, case["srs"])
    d0 = resolve(base)
    root = case["root"]
    sub = [root]
    for c in base["comps"]:
        if any(p in sub for p in d0[c["n"]]["parents"]) and c["n"] not in sub:
            sub.append(c["n"])
    assign = {}
    for c in base["comps"]:
        if c["n"] in sub:
            opts = pc_options(c, PH2, False)
            if len(opts) > 1:
                assign[c["n"]] = opts[1]
    conf = with_phases(base, PH2, assign)
    s = build(conf)
    quiet_call(s.solve)
    if case.get("mode") == "replace":
        # the configured root is REPLACED under the same name after an analysis: only its own configuration is reset
        rootc = [c for c in base["comps"] if c["n"] == root][0]
        s.change_comp(root, comp=make_comp(rootc))
        expected = with_phases(base, PH2, {k: v for k, v in assign.items() if k != root})
        res.stats["transitions"] += 3
    else:
        s.del_comp(root)
        for c in base["comps"]:
            if c["n"] in sub:
                s.add_comp(c["p"][0], comp=make_comp(c))
        res.stats["transitions"] += len(sub) + 2
        expected = with_phases(base, PH2, {})
    try:
        df, _ = quiet_call(s.solve)
    except Exception as e:
        res.v(("C06.readd-solve-raises", type(e).__name__), str(e))
        return res
    obs = observe(df)
    dd = resolve(expected)
    for ph in PH2:
        phys.check_phase(res, expected, obs, ph, 25.0, WANT, dd)
    res.viol = [(("C06.readd",) + sig, det) for sig, det in res.viol]
    res.nontrivial = 1 if assign else 0
    res.classes.add("readd")
    return res


def check_mux(case):
    """two or three supplies behind a PMux whose connected input differs between the phases (inputs active in phase a only): the rows of each phase
    -- incl. the Domain column and the Subsystem / total rows -- are those of the single-phase analysis, in either order of the phases."""
    from ..muxsys import mux_spec
    res = Res()
    spec = mux_spec([tuple(x) for x in case["inputs"]], case["pal"], case["rs_list"], below="std")
    if case.get("swap"):   # the phase in which the first inputs are live comes LAST
        spec["phases"] = dict(reversed(list(spec["phases"].items())))
    s, obs = phys.solve_and_check(res, spec, WANT + ("C07",), ta=-15.0)
    if obs is None:
        return res
    df, _ = quiet_call(s.solve, ta=-15.0, energy=True)
    for ph in spec["phases"]:
        try:
            d1, _ = quiet_call(s.solve, phase=ph, ta=-15.0, energy=True)
            sub = df[df["Phase"] == ph].reset_index(drop=True)
            sub = sub[[c for c in sub.columns if any(x != "" for x in sub[c].tolist())]]
            d1 = d1[[c for c in d1.columns if any(x != "" for x in d1[c].tolist())]]
            same = sorted(d1.columns) == sorted(sub.columns) and len(d1) == len(sub) and all(
                cells_equal(a, b) for col in d1.columns for a, b in zip(d1[col].tolist(), sub[col].tolist()))
            if not same:
                bad = [col for col in d1.columns if col in sub.columns and not all(cells_equal(a, b) for a, b in zip(d1[col].tolist(), sub[col].tolist()))]
                res.v(("C06.single-phase-rows", "mux"), "solve(phase=%r) differs from the rows of that phase in columns %s" % (ph, bad[:4]))
        except Exception as e:
            res.v(("C06.single-phase-exc", type(e).__name__), "%s" % e)
        res.stats["transitions"] += 1
    res.nontrivial = 1
    res.classes.add("mux")
    return res


def check_case(case):
    if case.get("fam") == "readd":
        return check_readd(case)
    if case.get("fam") == "mux":
        return check_mux(case)
    res = Res()
    phases = PH3 if case.get("ph3") else PH2
    base = spec_from_forest(case["f"], case["pal"], case.get("pol", 1), case["srs"])
    names = [c["n"] for c in base["comps"]]
    spec = with_phases(base, phases, dict(zip(names, case["assign"])))
    if case.get("pc_first"):
        spec["pc_first"] = True
    if case.get("bounce"):
        spec["bounce"] = case["bounce"]
    if case.get("pc_type"):
        spec["pc_type"] = case["pc_type"]
    if case.get("reconf"):   # every configured component was configured before, differently; the later call replaces the earlier one
        for c in spec["comps"]:
            if c.get("pc") is not None:
                c["pc0"] = list(phases) + ["zz"] if isinstance(c["pc"], list) else {p_: 1e-3 * (j + 1) for j, p_ in enumerate(phases)}
    if case.get("dur0"):     # a phase of duration exactly 0 is still a phase: it has rows, it just carries no weight in the average
        spec["phases"] = {k: (0.0 if j == case["dur0"] - 1 else v) for j, (k, v) in enumerate(spec["phases"].items())}
        phases = dict(spec["phases"])
    if case.get("rename"):
        # phase names one of which CONTAINS the other ("p" / "pq", "tx burst" / "tx"): selection and membership are by equality, never by substring
        ren = case["rename"]
        spec["phases"] = {ren.get(k, k): v for k, v in spec["phases"].items()}
        for c in spec["comps"]:
            if isinstance(c.get("pc"), list):
                c["pc"] = [ren.get(x, x) for x in c["pc"]]
            elif isinstance(c.get("pc"), dict):
                c["pc"] = {ren.get(k, k): v for k, v in c["pc"].items()}
        phases = dict(spec["phases"])
    s, obs = phys.solve_and_check(res, spec, WANT, ta=-15.0)
    if obs is None:
        return res
    d = resolve(spec)
    # a REJECTED redefinition of the phases (reserved name, not in first position) must leave the phases in force
    try:
        s.set_sys_phases({list(phases)[0]: 7.0, "N/A": 1.0, "later": 2.0})
        res.v(("C06.reserved-phase-name-accepted",), "")
    except ValueError:
        pass
    if s.get_sys_phases() != dict(phases):
        res.v(("C06.rejected-phase-definition-took-effect",), "phases now %r" % (s.get_sys_phases(),))
    # handing the phases dict back unchanged is a no-op (get_sys_phases() returns the live object)
    s.set_sys_phases(s.get_sys_phases())
    if s.get_sys_phases() != dict(phases):
        res.v(("C06.set-sys-phases-of-own-dict",), "after set_sys_phases(get_sys_phases()) the phases are %r" % (s.get_sys_phases(),))
        s.set_sys_phases(dict(phases))
    df, _ = quiet_call(s.solve, ta=-15.0, energy=True)
    configured = any(a is not None for a in case["assign"])
    sleepers = False
    for ph in phases:
        # (b) single-phase call == rows of that phase
        try:
            d1, _ = quiet_call(s.solve, phase=ph, ta=-15.0, energy=True)   # incl. the 24 h energy column: a phase keeps its share of the day
            sub = df[df["Phase"] == ph].reset_index(drop=True)
            # a column that is blank for every row of this phase (temperature columns of a phase without any rise) counts as absent
            sub = sub[[c for c in sub.columns if any(x != "" for x in sub[c].tolist())]]
            d1 = d1[[c for c in d1.columns if any(x != "" for x in d1[c].tolist())]]
            same = sorted(d1.columns) == sorted(sub.columns) and len(d1) == len(sub) and all(   # column ORDER is not part of the contract
                cells_equal(a, b) for col in d1.columns for a, b in zip(d1[col].tolist(), sub[col].tolist()))
            if not same:
                res.v(("C06.single-phase-rows",), "solve(phase=%r) differs from the rows of that phase" % ph)
        except Exception as e:
            res.v(("C06.single-phase-exc", type(e).__name__), "%s" % e)
        res.stats["transitions"] += 1
        # (d) projection differential
        pj = projection(spec, ph)
        if pj is not None:
            s2 = build(pj)
            try:
                df2, _ = quiet_call(s2.solve)
            except Exception as e:
                res.v(("C06.projection-exc", type(e).__name__), "%s" % e)
                continue
            o2 = observe(df2)
            res.stats["projections"] += 1
            for n in d:
                for col in CMPCOLS:
                    if not close(g(obs[(ph, n)], col), g(o2[("", n)], col), 2e-4, 2e-6):  # two independent solves, each within solver tolerance
                        res.v(("C06.projection", d[n]["k"], col), "phase %s %s %s: %r vs phase-free equivalent %r" % (ph, n, col, g(obs[(ph, n)], col), g(o2[("", n)], col)))
                        break
        for n, rec in d.items():
            if rec.get("pc") and not (ph in rec["pc"]):
                sleepers = True
    names_ = list(phases)
    probes = ["nope", "".join(names_), " ".join(names_), ",".join(names_)]
    for p_ in names_:
        probes += [p_ + "x", "x" + p_, p_ + " ", " " + p_, p_.upper() if p_.upper() != p_ else p_.lower(), p_[:-1] if len(p_) > 1 else p_ * 2]
    for pr in probes:
        if pr in phases or pr == "":
            continue
        for meth in (s.solve, s.rail_rep):
            try:
                quiet_call(meth, phase=pr)
                res.v(("C06.unknown-phase-accepted", meth.__name__), "%s(phase=%r) returned although the phases are %r" % (meth.__name__, pr, names_))
            except ValueError:
                pass
            except Exception as e:
                res.v(("C06.unknown-phase-exc", type(e).__name__), str(e))
    if case.get("negfile"):
        # a saved file whose per-phase load values were written with a negative sign (hand-edited / older tool): the loaded system takes magnitudes,
        # exactly like set_comp_phases() and the constructors do
        import os, json as _json
        from ..common import workdir
        from sysloss.system import System
        pth = os.path.join(workdir("c06"), "neg.json")
        s.save(pth)
        doc = _json.load(open(pth))
        for k_, v_ in doc["system"]["phase_conf"].items():
            if isinstance(v_, dict):
                doc["system"]["phase_conf"][k_] = {p_: -abs(x_) for p_, x_ in v_.items()}
        _json.dump(doc, open(pth, "w"))
        try:
            s3, _ = quiet_call(System.from_file, pth)
            o3 = observe(quiet_call(s3.solve, ta=-15.0)[0])
            for ph in phases:
                for n in d:
                    for col in CMPCOLS:
                        if not close(g(obs[(ph, n)], col), g(o3[(ph, n)], col), 2e-4, 2e-6):
                            res.v(("C06.file-with-negative-phase-values", d[n]["k"], col), "phase %s %s %s: %r in memory, %r loaded from the file with negative signs" % (ph, n, col, g(obs[(ph, n)], col), g(o3[(ph, n)], col)))
                            break
        except Exception as e:
            res.v(("C06.file-with-negative-phase-values-raises", type(e).__name__), str(e)[:200])
    if case.get("budgets"):
        # a small iteration budget: RuntimeError, or a table in which EVERY phase is the converged one (not only the last phase solved)
        for mi in (1, 2, 3, 5, 8):
            try:
                dfm, _ = quiet_call(s.solve, ta=-15.0, maxiter=mi)
            except RuntimeError:
                continue
            except ValueError:
                continue
            om = observe(dfm)
            bad = False
            for ph in phases:
                for n in d:
                    for col in CMPCOLS:
                        if not close(g(obs[(ph, n)], col), g(om[(ph, n)], col), 2e-4, 2e-6):
                            res.v(("C06.unconverged-phase-returned", "maxiter"), "maxiter=%d phase %s %s %s: %r, converged %r" % (mi, ph, n, col, g(om[(ph, n)], col), g(obs[(ph, n)], col)))
                            bad = True
                            break
                    if bad:
                        break
                if bad:
                    break
    res.nontrivial = 1 if (sleepers and sum(a is not None for a in case["assign"]) >= 2) else 0
    res.classes.add("configured=%d" % min(3, sum(a is not None for a in case["assign"])))
    return res


def gen_cases(tier):
    sd = seed()
    pal = sd % 3
    mid, deep = Trees(*SIG_MID), Trees(*SIG_DEEP)
    plans = [(mid, (1, 2), PH2, True, False)]
    if tier == "quick":
        plans += [(deep, (3,), PH2, False, False)]
    else:
        plans += [(mid, (3,), PH2, False, False), (deep, (3,), PH2, True, False), (mid, (1,), PH3, True, True), (mid, (2,), PH3, False, True)]
    for T, ns, phases, full, ph3 in plans:
        for n in ns:
            for f in T.iter_forests(n):
                if not full and tier == "quick" and all(len(t[1]) == 0 for t in f):
                    continue  # flat forests of the larger size add nothing over n<=2 (no element above another)
                base = spec_from_forest(f, pal, 1, 0.37)
                # the two special configurations (explicit 0 entry, only-undefined phase) for every component of 1-node trees and for the last component otherwise
                opts = [pc_options(c, phases, full, extras=(n == 1 or c is base["comps"][-1])) for c in base["comps"]]
                if not full and tier == "quick":
                    opts[0] = [None, [list(phases)[0]]]  # larger trees: the source is either unconfigured or on in the first phase only
                for assign in itertools.product(*opts):
                    yield dict(f=f, pal=pal, srs=0.37, assign=list(assign), ph3=ph3)
                    if not ph3 and n == 1 and any(isinstance(a, dict) for a in assign):
                        yield dict(f=f, pal=pal, srs=0.37, assign=list(assign), ph3=ph3, negfile=True)
                        yield dict(f=f, pal=pal, srs=0.37, assign=list(assign), ph3=ph3, pc_type="defaultdict")
                        yield dict(f=f, pal=pal, srs=0.37, assign=list(assign), ph3=ph3, pc_type="counter")
                    if not ph3 and n >= 2 and len(f) == 1 and assign[0] is not None:   # chains with a phase-configured source
                        yield dict(f=f, pal=pal, srs=0.37, assign=list(assign), ph3=ph3, budgets=True)
                    if not ph3 and n == 1:
                        yield dict(f=f, pal=pal, srs=0.37, assign=list(assign), ph3=ph3, bounce="rename")
                        yield dict(f=f, pal=pal, srs=0.37, assign=list(assign), ph3=ph3, bounce="clear")
                        yield dict(f=f, pal=pal, srs=0.37, assign=list(assign), ph3=ph3, reconf=True)
                        yield dict(f=f, pal=pal, srs=0.37, assign=list(assign), ph3=ph3, dur0=1)
                        yield dict(f=f, pal=pal, srs=0.37, assign=list(assign), ph3=ph3, dur0=2)
                    if not ph3 and (n == 1 or (n == 2 and len(f) == 1)):
                        yield dict(f=f, pal=pal, srs=0.37, assign=list(assign), ph3=ph3, rename={"a": "p", "b": "pq"})
                        if n == 1:
                            yield dict(f=f, pal=pal, srs=0.37, assign=list(assign), ph3=ph3, rename={"a": "tx burst", "b": "tx"})
                    if any(a is not None and "zz" in a for a in assign):  # configured BEFORE the system phases exist
                        yield dict(f=f, pal=pal, srs=0.37, assign=list(assign), ph3=ph3, pc_first=True)
    from ..muxsys import INPUT_OPTS
    for k in (2, 3):
        for inputs in itertools.product(INPUT_OPTS if k == 2 else INPUT_OPTS[::2], repeat=k):
            if any(st.startswith("inact") for _, st in inputs):
                for swap in (False, True):
                    yield dict(fam="mux", inputs=[list(x) for x in inputs], pal=pal, rs_list=(k == 3), swap=swap)
    yield from gen_readd(tier, pal)


def gen_readd(tier, pal):
    deep = Trees(*SIG_DEEP)
    for n in ((2, 3) if tier == "quick" else (2, 3, 4)):
        for f in deep.iter_forests(n):
            base = spec_from_forest(f, pal, 1, 0.37)
            for c in base["comps"][1:]:
                if c["p"] == ["S"] and c["k"] not in LOADS:
                    yield dict(fam="readd", f=f, pal=pal, srs=0.37, root=c["n"])
                    yield dict(fam="readd", f=f, pal=pal, srs=0.37, root=c["n"], mode="replace")


def replay(doc):
    r = check_case(doc["case"])
    for sig, detail in r.viol:
        print("  ", sig, detail)
    return [s for s, _ in r.viol]


def main(tier):
    run = Run(PROP, tier, replay)
    run.map(check_case, gen_cases(tier), chunk=16, family="phase-configs")
    run.require(run.stats["projections"] > 100, "no projection differentials")
    run.require(run.stats["sleep_rows"] > 100, "no sleeping elements")
    return run.finish(
        rule="E1-phase: every tree (mid alphabet n<=2; deep alphabet n=3; thorough adds mid n=3, 3 phases, deep n=4) x the full product over components of "
             "{no configuration} + {every non-empty subset of phases} (two-ended subsets only for the larger trees); per phase: C01/C02/C04 row oracles with the phase "
             "behaviour of the statement, solve(phase=p) cell-for-cell equal, unknown phase rejected, phase-free projection differential; plus: a phase-configured subtree deleted and re-added without configuration must behave as never configured. "
             "Plus 2-/3-input PMux systems whose connected input changes between the phases, phases in both orders: solve(phase=p) equals the rows of p incl. Domain and Subsystem rows. "
             "non-trivial = some component sleeps in some phase while >=2 components are configured.",
        assumptions=["one palette per run (VERIF_SEED)", "positive polarity", "Rectifier/RLoss/VLoss carry no phase configuration"])

"""C15 -- a rejected edit leaves the system untouched.
E2: every transition of the edit-history search on which the call raised (any exception type): K_full (graph, ordered registries, parameters, ghost
free list) and the component objects must be identical before / after, and tree(), params(limits=True), limits(), phases(), the save() document,
solve() and rail_rep() must equal the reports of the predecessor state.  Rejected successors are merged with their predecessor only if equal, so
'later calls behave as if the call had never been made' is explored rather than assumed."""
from ..common import workdir as _wd, cleanup_workdir as _cw, Run, Res, seed
from .. import e2
from ..reports import all_reports, diff_reports

PROP = "C15"
REPORTS = ["solve_energy", "rail_rep", "params", "limits", "phases", "tree", "save", "diag"]
_DEEP = {"on": True}


def trans_check_werror(sd, hist, op, s0, key0, s, key, idb, exc, memo):
    """the same comparison for calls made with warnings promoted to errors: a call that raises a Warning is a rejected call like any other"""
    if exc is None or not isinstance(exc, Warning):
        return []
    return [((sg[0] + "/warnings-as-errors",) + tuple(sg[1:]), d) for sg, d in trans_check(sd, hist, op, s0, key0, s, key, idb, exc, memo)]


def trans_check(sd, hist, op, s0, key0, s, key, idb, exc, memo):
    if exc is None:
        return []
    v = []
    tag = (op[0], type(exc).__name__)
    if key != key0:
        v.append(((PROP + ".state-changed", *tag), "rejected %r (%s) changed the internal state" % (op, exc)))
    elif idb is not None and e2.ids(s) != idb:
        v.append(((PROP + ".component-object-replaced", *tag), "rejected %r" % (op,)))
    if key == key0 and e2.kfull(s, memo.get("g2", ()), extra=True)[3:] != e2.kfull(s0, memo.get("g2", ()), extra=True)[3:]:
        # the visible state is unchanged but some other attribute of the object is not: "later calls behave as if the call had never been made"
        # is then CHECKED: every op of the menu, and every second op after it, must have the same outcome with and without the rejected call
        v += divergence(sd, hist, op)
    if _DEEP["on"]:
        if "pre" not in memo:
            memo["pre"] = all_reports(s0, REPORTS)
        post = all_reports(s, REPORTS)
        for rep, d in diff_reports(memo["pre"], post)[:3]:
            v.append(((PROP + ".report-changed", rep, *tag), "rejected %r: %s" % (op, d)))
    return v


def outcome(sd, hist):
    s, g = e2.replay(sd, hist[:-1])
    g2, exc = e2.step(s, g, hist[-1])
    return (type(exc).__name__ if exc is not None else "accepted", e2.khash(e2.kfull(s, g2, extra=False))), s


def divergence(sd, hist, op):
    v = []
    s0, _ = e2.replay(sd, hist)
    for c1, o1 in e2.ops(s0, 2, "RI", False):
        a, sa = outcome(sd, hist + [o1])
        b, _ = outcome(sd, hist + [op, o1])
        if a != b:
            v.append(((PROP + ".later-call-differs", op[0], o1[0]), "after the rejected %r the call %r gives %r instead of %r" % (op, o1, b[0], a[0])))
            return v
        if a[0] != "accepted":
            continue
        for c2, o2 in e2.ops(sa, 1, "RI", False):
            a2, _ = outcome(sd, hist + [o1, o2])
            b2, _ = outcome(sd, hist + [op, o1, o2])
            if a2 != b2:
                v.append(((PROP + ".later-call-differs", op[0], o1[0] + ">" + o2[0]), "after the rejected %r the calls %r, %r give %r instead of %r" % (op, o1, o2, b2[0], a2[0])))
                return v
    return v


def replay(doc):
    c = doc["case"]
    hist = c["hist"]
    s0, g0 = e2.replay(c["seed"], hist[:-1])
    s, g = e2.replay(c["seed"], hist[:-1])
    idb = e2.ids(s)
    g2, exc = e2.step(s, g, hist[-1], werror=c.get("werror", False))
    v = trans_check(c["seed"], hist[:-1], hist[-1], s0, e2.kfull(s0, g0, extra=False), s, e2.kfull(s, g2, extra=False), idb, exc, {})
    if c.get("werror"):
        v = [((sg[0] + "/warnings-as-errors",) + tuple(sg[1:]), d) for sg, d in v]
    for sig, det in v:
        print("  ", sig, det)
    return [tuple(str(x) for x in s_) for s_, _ in v]


def main(tier):
    run = Run(PROP, tier, replay)
    D, B = (2, 2) if tier == "quick" else (3, 2)
    if tier == "quick":  # reports compared for every rejected call within budget 1; budget 2 with the white-box snapshot (reports are a function of it)
        st = e2.explore(run, list(e2.SEEDS), 2, 1, trans_check=trans_check, phase_ops=True)
        _DEEP["on"] = False
        stb = e2.explore(run, list(e2.SEEDS), 2, 2, trans_check=trans_check, phase_ops=True, odd=True)
        _DEEP["on"] = True
        for k in list(stb):
            if k != "per_depth":
                st[k] = max(st[k], stb[k]) if k in ("states",) else st[k] + stb[k]
        st["per_depth_b2_snapshot_only"] = stb["per_depth"]
    else:
        st = e2.explore(run, list(e2.SEEDS), D, B, trans_check=trans_check, phase_ops=True, odd=True, max_states=250000)
    # warnings promoted to errors: a call that warns is then a rejected call and must be atomic as well
    stw = e2.explore(run, list(e2.SEEDS), 2 if tier == "quick" else 3, 2, trans_check=trans_check_werror, phase_ops=True, werror=True, max_states=None if tier == "quick" else 1500000)
    st["warnings_as_errors"] = {"states": stw["states"], "transitions": stw["transitions"], "rejected": stw["rejected"],
                                "warning_rejections": {k[9:]: v for k, v in stw.items() if k.startswith("rejected:") and "Warning" in k}}
    if tier != "quick":
        _DEEP["on"] = False  # beyond depth 3 only the white-box snapshot is compared (reports are a function of it)
        st2 = e2.explore(run, ["single", "mux", "rails"], 4, 1, trans_check=trans_check, phase_ops=True, max_states=1500000)
        for k in list(st2):
            if k.startswith("rejected") or k in ("states", "transitions"):
                st[k] += st2[k]
        st["per_depth_d4b1"] = st2["per_depth"]
    run.cases = st["transitions"]
    run.nontrivial = st["rejected"]
    kinds = sorted(k[9:] for k in st if k.startswith("rejected:"))
    run.samples.append({"seed": "rails", "history": [["ac", "Q0", "I", "N1", ""], ["dc", "QA", True]], "note": "second call is rejected (rail-valued target)"})
    for need in ("as:ValueError", "ac:ValueError", "cc:ValueError", "dc:ValueError", "sp:ValueError", "cp:ValueError"):
        run.require(need in kinds, "no rejected call of kind %s" % need)
    _cw()
    return run.finish(
        rule="E2 (same transition system as C14, plus set_sys_phases / set_comp_phases incl. malformed arguments: non-dict/list, a single phase, 'N/A', {} , unknown component, loss "
             "component, rail-valued target): depth <= %d, deviation budget <= %d from 10 seeds%s. For EVERY rejected call: K_full before == after, component objects identical, and 8 reports "
             "(solve, rail_rep, params(limits), limits, phases, tree, save document, make_diag DOT graph) equal to the predecessor's. evaluations = transitions explored, distinct_nontrivial = rejected transitions checked." % (
                 D, B, "" if tier == "quick" else "; plus depth 4, budget 1 from 3 seeds with the white-box comparison only"),
        states=st["states"], transitions=st["transitions"], traces=st["rejected"],
        extra={"per_depth": st["per_depth"], "rejected_transitions": st["rejected"], "rejections_by_kind_and_exception": {k[9:]: v for k, v in st.items() if k.startswith("rejected:")},
               "bound_completed": {"depth": D, "budget": B}},
        assumptions=["5-letter component alphabet", "K_full covers every attribute the System methods read"])

"""2-second self test used by MANIFEST.setup_cmd: the harness binds to /repo/src and the reference laws agree
with the real solver on one small tree."""
from ..common import Res
from ..sysmodel import spec_from_forest
from .. import phys


def main(tier):
    r = Res()
    spec = spec_from_forest((("CVc", (("PL", ()), ("RL", (("IL", ()),)))),), 0, 1, 0.37)
    s, obs = phys.solve_and_check(r, spec, ("C01", "C04"))
    bad = [v for v in r.viol]
    if obs is None or bad:
        print("SELFTEST FAILED", bad)
        return 2
    print("selftest ok")
    return 0


def replay(doc):
    return []

"""C17 -- analyses are read-only; batt_life restores the battery even on failure.
(a) representative systems (every kind, PMux, phases, rails, groups, limits, 1-D / 2-D tables) x every analysis: white-box snapshot K_full, component
object identities and the argument objects (tags, diagram config) unchanged; solve() twice identical;
(b) every ORDERED PAIR (thorough: triple) of analyses: the result of the last call equals its result on a fresh build (no hidden state between analyses);
(c) E3 fault enumeration on batt_life: pfunc raises; dfunc raises at call k for EVERY k of every answer sequence; a battery state that makes the solver raise
at step k -- afterwards params() shows the original vo / rs and K_full is unchanged."""
import itertools, copy, os, json, io, contextlib, shutil, hashlib
from ..common import workdir as _wd, cleanup_workdir as _cw, Run, Res, seed, quiet_call, VERIF
from ..sysmodel import build, letters, PH2
from ..muxsys import mux_spec
from .. import e2
from ..reports import table, parse_tree, norm_save
from .c19 import shapes
from .c18 import run_seq, PHASES, mksys, Boom
from sysloss.diagram import make_diag, make_hdiag, get_conf
import matplotlib
matplotlib.use("Agg")
import matplotlib.pyplot as plt

PROP = "C17"
ANALYSES = ["plot_interp_all", "solve", "solve_tags", "rail_rep", "params", "limits", "phases", "tree", "save", "plot_interp", "make_diag", "make_hdiag", "batt_life",
            "make_diag_nogroup", "make_hdiag_nogroup"]


def systems(pal=0):
    out = dict(shapes(pal))
    L = letters(pal)
    mk = lambda n, l, p, **kw: dict(dict(n=n, k=L[l][0], a=copy.deepcopy(L[l][1]), p=p, g="", r=""), **kw)
    S = lambda n, v=5.0, **kw: dict(dict(n=n, k="Source", a=dict(vo=v, rs=0.1), p=[], g="", r=""), **kw)
    out["tables"] = dict(name="tables", phases=dict(PH2), comps=[
        S("S1", r="VIN", g="in", lim={"io": [0.0, 0.01]}), mk("C1", "CV1", ["VIN"], r="V2", g="dc", pc=["a"]), mk("C2", "CV2", ["S1"], g="dc"),
        mk("G1", "LR2", ["C2"], lim={"vi": [6.0, 0.5], "vo": [-13.0, -11.0]}), mk("V1", "VL1", ["V2"]), mk("P1", "PS1", ["C2"]), mk("L1", "PL", ["G1"], pc={"a": 0.05}),
        mk("L2", "ILx", ["V1"]), mk("L3", "RO", ["P1"]), mk("D1", "RD1", ["S1"]), mk("L4", "IL", ["D1"]), mk("M1", "RM1", ["S1"]), mk("L5", "PLx", ["M1"])])
    m = mux_spec([("S", "live"), ("SC", "inact-reg"), ("SH", "live")], pal, True, rails=True, by_rail=True, below="deep")
    out["mux3"] = m
    # milliamp-range 1-D tables (every io point below 0.1 A), negative per-phase load values (magnitudes), a table on the first AND later components
    mio = [0.0, 1e-3, 2e-2, 8e-2]
    out["mtables"] = dict(name="mtables", phases=dict(PH2), comps=[
        S("S1"),
        dict(n="C1", k="Converter", a=dict(vo=3.3, eff={"vi": [5.0], "io": mio[1:], "eff": [[0.6, 0.8, 0.9]]}, iq=1e-4), p=["S1"], g="", r=""),
        dict(n="G1", k="LinReg", a=dict(vo=1.8, vdrop=0.2, ig={"vi": [3.3], "io": mio, "ig": [[1e-5, 2e-5, 9e-5, 2e-4]]}), p=["C1"], g="a", r=""),
        dict(n="V1", k="VLoss", a=dict(vdrop={"vi": [5.0], "io": mio[1:], "vdrop": [[0.05, 0.1, 0.3]]}), p=["S1"], g="", r=""),
        dict(n="P1", k="PSwitch", a=dict(rs=0.2, ig={"vi": [2.5, 5.0], "io": mio[1:], "ig": [[1e-5, 2e-5, 3e-5], [2e-5, 3e-5, 5e-5]]}), p=["V1"], g="", r=""),
        dict(n="L1", k="ILoad", a=dict(ii=0.03, iis=1e-4), p=["G1"], g="", r="", pc={"a": -0.012, "b": 0.02}),
        dict(n="L2", k="PLoad", a=dict(pwr=0.05, pwrs=1e-4), p=["P1"], g="", r="", pc={"a": -0.02}),
        dict(n="L3", k="RLoad", a=dict(rs=400.0), p=["C1"], g="b", r="", pc={"b": -900.0}),
        # parameters with more than 12 significant digits
        dict(n="C9", k="Converter", a=dict(vo=10.0 / 3.0, eff=0.1 + 0.7, iq=1.0 / 7e4), p=["S1"], g="", r=""),
        dict(n="R9", k="RLoss", a=dict(rs=0.1 + 0.2), p=["C9"], g="", r=""),
        dict(n="L9", k="PLoad", a=dict(pwr=1.0 / 7.0, pwrs=1.0 / 3e4), p=["R9"], g="", r="")])
    return out


def first_table_comp(spec):
    for c in spec["comps"]:
        if any(isinstance(v, dict) for v in c["a"].values()):
            return c["n"]
    return spec["comps"][1]["n"]


def battery(spec):
    return [c["n"] for c in spec["comps"] if c["k"] == "Source"][0]


def run_analysis(s, spec, name, args):
    """returns a hashable / comparable normalised result."""
    wd = _wd()
    try:
        if name == "solve":
            return table(quiet_call(s.solve)[0], ["Phase", "Component"])
        if name == "solve_tags":
            return table(quiet_call(s.solve, energy=True, tags=args["tags"], ta=-10.0)[0], ["Phase", "Component"])
        if name == "rail_rep":
            df = quiet_call(s.rail_rep, tags=args["tags"])[0]
            return table(df, ["Phase", "Rail"] if df is not None and "Rail" in df.columns else ["Phase", "Component"])
        if name == "params":
            return table(s.params(limits=True), ["Component"])
        if name == "limits":
            return table(s.limits(), ["Component"])
        if name == "phases":
            return table(s.phases(), ["Component", "Active phase"])
        if name == "tree":
            return ("tree", quiet_call(s.tree)[1])
        if name == "save":
            p = os.path.join(wd, "s.json")
            s.save(p)
            return ("save", open(p).read())
        if name == "plot_interp":
            fig, _ = quiet_call(s.plot_interp, first_table_comp(spec))
            r = ("fig", None if fig is None else [[hashlib.sha1(l.get_ydata().tobytes()).hexdigest() for l in ax.lines] for ax in fig.axes],
                 None if fig is None else tuple(round(float(x), 6) for x in fig.get_size_inches()))
            plt.close("all")
            return r
        if name == "plot_interp_all":   # every tabulated component, 2-D ones also as a 3-D surface, with and without the input data points
            out_ = []
            for c in spec["comps"]:
                if any(isinstance(v, dict) for v in c["a"].values()):
                    for kw_ in (dict(), dict(inpdata=False), dict(plot3d=True)):
                        fig, _ = quiet_call(s.plot_interp, c["n"], **kw_)
                        out_.append((c["n"], sorted(kw_), None if fig is None else [[hashlib.sha1(l.get_ydata().tobytes()).hexdigest() for l in ax.lines] for ax in fig.axes],
                                     None if fig is None else tuple(round(float(x), 6) for x in fig.get_size_inches())))
                        plt.close("all")
            return ("figs", out_)
        if name in ("make_diag", "make_hdiag"):
            p = os.path.join(wd, "d.raw")
            quiet_call(make_diag if name == "make_diag" else make_hdiag, s, fname=p, config=args["config"])
            return ("dot", open(p).read())
        if name in ("make_diag_nogroup", "make_hdiag_nogroup"):   # grouping switched off, library default configuration
            p = os.path.join(wd, "d.raw")
            quiet_call(make_diag if name == "make_diag_nogroup" else make_hdiag, s, fname=p, group=False)
            return ("dot", open(p).read())
        if name == "batt_life":
            st = [0.01, 3.7, 0.1]
            n = [0]

            def pf():
                return tuple(st)

            def df(t, i):
                n[0] += 1
                st[0] -= 0.004
                st[1] -= 0.05
                return tuple(st)
            with contextlib.redirect_stderr(io.StringIO()):
                log = s.batt_life(battery(spec), cutoff=3.0, pfunc=pf, dfunc=df, tags=args["tags"])
            return table(log, ["Time (s)"])
    except Exception as e:
        return ("EXC", type(e).__name__, str(e)[:100])
    raise KeyError(name)


def mkargs():
    c = get_conf()
    c["node"]["Source"] = {"fillcolor": "coral"}
    return {"tags": {"rev": 3, "who": "x", "Group": "tagged", "Parent": "tagged"}, "config": c}


def check_seq(case):
    res = Res()
    spec = systems(case["pal"])[case["sys"]]
    seq = case["seq"]
    s = build(spec)
    args = mkargs()
    args0 = copy.deepcopy(args)
    k0, id0 = e2.kfull(s, (), extra=False), e2.ids(s)
    last = None
    for a in seq:
        last = run_analysis(s, spec, a, args)
        res.stats["transitions"] += 1
        k1 = e2.kfull(s, (), extra=False)
        if k1 != k0 or e2.ids(s) != id0:
            diff = [x for x, y in zip(k0[0] + k0[1], k1[0] + k1[1]) if x != y][:1]
            res.v(("C17.system-mutated", a), "%s changed the system: %s" % (a, str(diff)[:200]))
            k0, id0 = k1, e2.ids(s)
        if args != args0:
            res.v(("C17.argument-mutated", a), "%s changed its argument objects" % a)
            args = copy.deepcopy(args0)
        if isinstance(last, tuple) and last and last[0] == "EXC":
            res.v(("C17.analysis-raises", a, last[1]), last[2])
    # differential: last analysis after the prefix == the same analysis on a fresh build
    fresh = run_analysis(build(spec), spec, seq[-1], mkargs())
    if last != fresh:
        res.v(("C17.depends-on-earlier-analysis", seq[-1], "after:" + "+".join(seq[:-1])), "result of %s after %s differs from a fresh system" % (seq[-1], seq[:-1]))
    if len(seq) == 1 and seq[0] == "solve":
        again = run_analysis(s, spec, "solve", args)
        if again != last:
            res.v(("C17.solve-not-repeatable",), "")
    res.nontrivial = 1 if len(seq) >= 2 else 0
    res.classes.add("seq%d" % len(seq))
    return res


def check_fault(case):
    res = Res()
    variant, phname, seq, fault = case["variant"], case["phases"], case["seq"], case.get("fault")
    # reference: same system untouched
    ref = mksys(variant, 5.0, 0.3, PHASES[phname])
    p0 = ref.params().astype(str).to_dict("records")
    k0 = e2.kfull(ref, (), extra=False)
    s, calls, log, exc, npf = run_seq(variant, phname, seq, fault=fault)
    res.stats["transitions"] += len(calls) + 1
    kind = "pfunc-raises" if fault == "pfunc" else ("dfunc-raises" if "X" in seq else ("dfunc-aborts" if "Y" in seq else ("solver-raises" if "H" in seq else "normal")))
    if fault and fault != "pfunc":
        kind = "pfunc-garbage"
    elif any(ch in seq for ch in "GNSQ"):
        kind = "dfunc-garbage"
    if kind not in ("normal", "pfunc-garbage", "dfunc-garbage") and exc is None:
        res.v(("C17.fault-not-propagated", kind), "seq %s" % seq)
    if kind == "solver-raises" and not isinstance(exc, (ValueError, RuntimeError)):
        res.v(("C17.solver-fault-type", type(exc).__name__), "seq %s" % seq)
    p1 = s.params().astype(str).to_dict("records")
    if p1 != p0:
        d = [(a["Component"], a["vo (V)"], b["vo (V)"], a["rs (Ohm)"], b["rs (Ohm)"]) for a, b in zip(p0, p1) if a != b]
        res.v(("C17.battery-not-restored", kind), "seq %s at call %d: %r" % (seq, len(calls), d[:2]))
    elif e2.kfull(s, (), extra=False) != k0:
        res.v(("C17.batt_life-mutated-system", kind), "seq %s" % seq)
    res.nontrivial = 1 if (kind != "normal" and len(calls) > 1) else 0
    res.classes.add(kind)
    return res


def twin_spec(carrier, variant):
    """two designs that differ only in the VALUES of a 2-D table (same axes, same operating point)."""
    from .c10 import carrier_comp, VALS, zkey
    z = zkey(carrier)
    vals = VALS[z]
    rows = [[vals[(i + j + variant) % 3] for j in range(3)] for i in range(2)]
    cc = carrier_comp(carrier, {"vi": [2.5, 6.0], "io": [0.0, 0.2, 0.9], z: rows}, 1)
    return dict(name="twin-%s-%d" % (carrier, variant), phases=None, comps=[
        dict(n="S", k="Source", a=dict(vo=5.0, rs=0.0), p=[], g="", r=""),
        dict(n="X", k=cc["k"], a=cc["a"], p=["S"], g="", r=""),
        dict(n="L", k="ILoad", a=dict(ii=0.5), p=["X"], g="", r="")])


def check_cross(case):
    """analyses of ONE system must not change the results of ANOTHER system living in the same process."""
    res = Res()
    sa, sb = twin_spec(case["carrier"], 0), twin_spec(case["carrier"], case["variant"])
    A, B = build(sa), build(sb)
    ra = run_analysis(A, sa, case["a"], mkargs())
    rb = run_analysis(B, sb, case["b"], mkargs())
    ra2 = run_analysis(A, sa, case["a"], mkargs())
    res.stats["transitions"] += 3
    fresh_b = run_analysis(build(sb), sb, case["b"], mkargs())
    fresh_a = run_analysis(build(sa), sa, case["a"], mkargs())
    if rb != fresh_b:
        res.v(("C17.other-system-influences", case["carrier"], case["a"] + ">" + case["b"]), "%s on system B after %s on system A differs from B alone" % (case["b"], case["a"]))
    if ra2 != fresh_a or ra != fresh_a:
        res.v(("C17.other-system-influences", case["carrier"], "A-after-B"), "%s on system A changed after %s on system B" % (case["a"], case["b"]))
    res.nontrivial = 1
    res.classes.add("cross-system")
    return res


def check_edit_between(case):
    """analysis a, then a leaf is deleted and a component of the SAME name is added under another parent (freed index re-used), then solve():
    the result must be that of the edited structure built from scratch."""
    from ..sysmodel import make_comp, resolve
    res = Res()
    spec = copy.deepcopy(systems(case["pal"])[case["sys"]])
    d = resolve(spec)
    leaves = [n for n in d if not d[n]["children"] and d[n]["k"] != "Source" and len(d[n]["parents"]) == 1]
    if not leaves:
        return res
    leaf = leaves[case["leaf"] % len(leaves)]
    others = [n for n in d if n != leaf and d[n]["k"] not in ("PLoad", "ILoad", "RLoad") and n != d[leaf]["parents"][0]]
    if not others:
        return res
    newp = others[case["parent"] % len(others)]
    s = build(spec)
    run_analysis(s, spec, case["a"], mkargs())
    lc = [c for c in spec["comps"] if c["n"] == leaf][0]
    s.del_comp(leaf)
    s.add_comp(newp, comp=make_comp(lc), group=lc.get("g", ""))
    if lc.get("pc") is not None and spec.get("phases"):
        s.set_comp_phases(leaf, copy.deepcopy(lc["pc"]))
    for c in spec["comps"]:
        if c["n"] == leaf:
            c["p"] = [newp]
    spec["comps"] = [c for c in spec["comps"] if c["n"] != leaf] + [c for c in spec["comps"] if c["n"] == leaf]   # the moved leaf is built last
    fin = case.get("b", "solve")
    got = run_analysis(s, spec, fin, mkargs())
    want = run_analysis(build(spec), spec, fin, mkargs())
    res.stats["transitions"] += 4
    from ..reports import diff_tables
    if (diff_tables(got, want, 1e-9, 1e-12) if isinstance(got, dict) and isinstance(want, dict) else got != want):
        res.v(("C17.analysis-outlives-edit", case["a"]), "%s, then %s moved under %s: solve() differs from the edited structure built from scratch" % (case["a"], leaf, newp))
    res.nontrivial = 1
    res.classes.add("edit-between")
    return res


def check_case(case):
    if case["fam"] == "editbetween":
        return check_edit_between(case)
    if case["fam"] == "cross":
        return check_cross(case)
    return check_seq(case) if case["fam"] == "seq" else check_fault(case)


def gen_cases(tier):
    pal = seed() % 3
    names = list(systems(pal))
    for sysn in names:
        for a in ANALYSES:
            yield dict(fam="seq", sys=sysn, pal=pal, seq=[a])
        for a, b in itertools.product(ANALYSES, repeat=2):
            yield dict(fam="seq", sys=sysn, pal=pal, seq=[a, b])
    if tier != "quick":
        for sysn in ("tables", "mux3", "phased"):
            for t in itertools.product(ANALYSES, repeat=3):
                if len(set(t)) == 3:
                    yield dict(fam="seq", sys=sysn, pal=pal, seq=list(t))
    for sysn in ("chain", "fan", "phased", "tables"):
        for a in ("solve", "params", "save", "phases", "make_hdiag", "batt_life"):
            for leaf in (0, 1):
                for parent in (0, 1):
                    yield dict(fam="editbetween", sys=sysn, pal=pal, a=a, leaf=leaf, parent=parent)
    for carrier in ("vloss-vdrop", "pswitch-ig", "conv-eff", "linreg-ig", "rect-vdrop"):
        for variant in (1, 2):
            for a, b in itertools.product(("solve", "plot_interp", "make_hdiag", "batt_life", "rail_rep"), repeat=2):
                yield dict(fam="cross", carrier=carrier, variant=variant, a=a, b=b)
    K = 3 if tier == "quick" else 5
    for variant in ("A", "B"):
        for phname in PHASES:
            yield dict(fam="fault", variant=variant, phases=phname, seq="Z", fault="pfunc")
            from .c18 import GARBAGE
            for gf in GARBAGE:
                for sq in ("Z", "cZ"):
                    yield dict(fam="fault", variant=variant, phases=phname, seq=sq, fault=gf)
            for k in range(0, 3):
                for body in itertools.product("cv", repeat=k):
                    for end in "GNSQ":
                        yield dict(fam="fault", variant=variant, phases=phname, seq="".join(body) + end)
                    # re-entrancy: a callback that itself runs batt_life() on the same system, followed by each kind of ending
                    for end in ("Z", "X", "H"):
                        yield dict(fam="fault", variant=variant, phases=phname, seq="".join(body) + "B" + end + ("Z" if end == "H" else ""))
            for k in range(0, K + 1):
                for body in itertools.product("cvr", repeat=k):
                    for end in ("X", "Y", "H", "Z"):
                        yield dict(fam="fault", variant=variant, phases=phname, seq="".join(body) + end + ("Z" if end == "H" else ""))


def replay(doc):
    r = check_case(doc["case"])
    for sig, detail in r.viol[:10]:
        print("  ", sig, detail)
    _cw()
    return [s for s, _ in r.viol]


def main(tier):
    run = Run(PROP, tier, replay)
    try:
        run.map(check_case, gen_cases(tier), chunk=4, family="analyses")
    finally:
        _cw()
    for c in ("seq2", "cross-system", "edit-between", "pfunc-raises", "dfunc-raises", "dfunc-aborts", "solver-raises", "normal", "pfunc-garbage", "dfunc-garbage"):
        run.require(c in run.classes, "class %s never observed" % c)
    return run.finish(
        rule="(a,b) 7 systems (chain, fan-out, two sources, 2-input PMux, phases, a 13-component system with 1-D / 2-D tables of every carrier + rails + groups + limits, a 3-input PMux with rails) x "
             "every single analysis and EVERY ordered pair (thorough: every triple of distinct analyses on 3 systems) of 12 analyses (solve, solve with tags/energy/ta, rail_rep, params, limits, phases, tree, "
             "save, plot_interp, make_diag, make_hdiag, batt_life): after each call K_full, component identities and the argument objects are unchanged and the last result equals its result on a fresh build; "
             "(b') pairs of analyses on TWO systems that differ only in the values of a 2-D table (5 carriers): the second system's result equals its result alone; (c) batt_life fault enumeration: pfunc raising; for every answer sequence of length 0..%d the dfunc raising an Exception / a BaseException (KeyboardInterrupt-like) at the last call (= every k), and a battery state that makes the solver raise, "
             "x 3 phase sets x 2 battery placements: params() and K_full identical to an untouched system. non-trivial = pairs/triples and faults after >= 1 successful step." % (3 if tier == "quick" else 5),
        assumptions=["K_full covers every attribute the System methods read", "image back-ends (PNG) not exercised; diagrams rendered as DOT text"])

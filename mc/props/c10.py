"""C10 -- tabulated parameters: exact on the grid, linear between, clamped outside.
E4: all tables from a grid-shape / value menu x all query points of a lattice (grid points, mid / quarter points of every grid edge, cell centres,
outside in all directions, far outside) x both supply signs x 7 carriers.  The parameter is read back from a solved probe system
Source(rs=0) -> carrier(table) -> ILoad, which pins (Vin, Iout) exactly."""
import itertools, math
from ..common import Run, Res, seed, quiet_call, close
from ..sysmodel import build, observe, g

PROP = "C10"
IOS = [[0.3], [0.1, 0.5], [0.0, 0.2, 0.9], [0.05, 0.1, 0.4, 1.0]]
VIS = [[2.5, 5.0], [1.0, 3.3, 12.0]]
CARRIERS = ["conv-eff", "vloss-vdrop", "linreg-ig", "pswitch-ig", "pmux-ig", "rect-ig", "rect-vdrop", "rect-vdrop/igtab"]
IGTAB = {"vi": [3.0, 30.0], "io": [0.05, 2.0], "ig": [[0.011, 0.013], [0.017, 0.019]]}   # a second table on the same Rectifier (ignored by a diode bridge)
VALS = {"eff": [0.55, 0.8, 0.95], "vdrop": [0.05, 0.1, 0.2], "ig": [1e-4, 5e-4, 2e-3]}


def zkey(carrier):
    return carrier.split("-")[1].split("/")[0]


def carrier_comp(carrier, table, pol):
    z = zkey(carrier)
    if carrier == "conv-eff":
        return dict(k="Converter", a=dict(vo=0.9 * pol, eff=table, iq=1e-3))
    if carrier == "vloss-vdrop":
        return dict(k="VLoss", a=dict(vdrop=table))
    if carrier == "linreg-ig":
        return dict(k="LinReg", a=dict(vo=0.3 * pol, vdrop=0.0, ig=table))
    if carrier == "pswitch-ig":
        return dict(k="PSwitch", a=dict(rs=0.0, ig=table))
    if carrier == "pmux-ig":
        return dict(k="PMux", a=dict(rs=0.0, ig=table))
    if carrier == "rect-ig":
        return dict(k="Rectifier", a=dict(vdrop=0.0, rs=0.0, ig=table, iq=1e-3))
    if carrier == "rect-vdrop":
        return dict(k="Rectifier", a=dict(vdrop=table))
    if carrier == "rect-vdrop/igtab":
        import copy
        return dict(k="Rectifier", a=dict(vdrop=table, ig=copy.deepcopy(IGTAB)))


def probe(carrier, table, Vq, Iq):
    pol = 1 if Vq > 0 else -1
    c = carrier_comp(carrier, table, pol)
    spec = dict(name="p", phases=None, comps=[
        dict(n="S", k="Source", a=dict(vo=Vq, rs=0.0), p=[], g="", r=""),
        dict(n="X", k=c["k"], a=c["a"], p=["S"], g="", r=""),
        dict(n="L", k="ILoad", a=dict(ii=Iq), p=["X"], g="", r="")])
    s = build(spec)
    df, _ = quiet_call(s.solve)
    o = observe(df)
    r = o[("", "X")]
    vin, vout, iin, iout = g(r, "Vin (V)"), g(r, "Vout (V)"), g(r, "Iin (A)"), g(r, "Iout (A)")
    if vin != Vq or iout != abs(Iq):
        return None, o
    if carrier == "conv-eff":
        val = abs(vout * iout / (vin * iin)) if iin else float("nan")
    elif carrier == "vloss-vdrop":
        val = abs(vin) - abs(vout)
    elif carrier.startswith("rect-vdrop"):
        val = (abs(vin) - abs(vout)) / 2.0
    else:
        val = iin - iout
    return val, o


def lin(x, xs, ys):
    if x <= xs[0]:
        return ys[0]
    if x >= xs[-1]:
        return ys[-1]
    for a, b, fa, fb in zip(xs, xs[1:], ys, ys[1:]):
        if a <= x <= b:
            return fa + (fb - fa) * (x - a) / (b - a)


def axis_points(ax, lo_factor=0.5):
    pts = set(ax)
    for a, b in zip(ax, ax[1:]):
        pts |= {(a + b) / 2, a + (b - a) / 4, a + 3 * (b - a) / 4}
    out = [ax[-1] * 1.3 + 0.01, ax[-1] * 10 + 1]
    if ax[0] > 0:
        out.append(ax[0] * lo_factor)
    return sorted(pts), sorted(out)


def expectation(table, z, x, y):
    """('exact'|'range', value or (lo,hi)) for query (io=x, vi=y), coordinates clamped to the table.
    The vi rows may be listed in any order (real saved systems list them descending): sort them first."""
    order = sorted(range(len(table["vi"])), key=lambda i: table["vi"][i])
    io, vi, Z = table["io"], [table["vi"][i] for i in order], [[abs(v) for v in table[z][i]] for i in order]   # tabulated values are magnitudes
    cx = min(max(x, io[0]), io[-1])
    if len(vi) == 1:
        return "exact", lin(cx, io, Z[0])
    cy = min(max(y, vi[0]), vi[-1])
    if cx in io:
        j = io.index(cx)
        return "exact", lin(cy, vi, [Z[i][j] for i in range(len(vi))])
    if cy in vi:
        i = vi.index(cy)
        return "exact", lin(cx, io, Z[i])
    j = max(k for k in range(len(io) - 1) if io[k] <= cx)
    i = max(k for k in range(len(vi) - 1) if vi[k] <= cy)
    cs = [Z[i][j], Z[i][j + 1], Z[i + 1][j], Z[i + 1][j + 1]]
    return "range", (min(cs), max(cs))


def tables(tier, z):
    vals = VALS[z]
    out = []
    for io in IOS:
        for zz in itertools.product(vals, repeat=len(io)):
            out.append({"vi": [3.3], "io": io, z: [list(zz)]})
    for io in IOS[1:3]:
        for vi in VIS:
            n = len(io) * len(vi)
            if n == 4:
                combos = list(itertools.product(vals, repeat=4))
            else:
                a, b, c = vals
                combos = []
                # planar-ish, saddle, monotone, constant, single peak
                combos.append([a + (c - a) * (ii / (len(io) - 1)) * 0.5 + (c - a) * (vv / (len(vi) - 1)) * 0.5 for vv in range(len(vi)) for ii in range(len(io))])
                combos.append([a if (ii + vv) % 2 == 0 else c for vv in range(len(vi)) for ii in range(len(io))])
                combos.append([[a, b, c][min(2, ii + vv)] for vv in range(len(vi)) for ii in range(len(io))])
                combos.append([b] * n)
                combos.append([c if (ii == 1 and vv == 1) else a for vv in range(len(vi)) for ii in range(len(io))])
                if tier != "quick":
                    combos += [list(x) for x in itertools.islice(itertools.product(vals, repeat=n), 0, 3 ** n, 7)]
            for ci, zz in enumerate(combos):
                zz = list(zz)
                rows = [zz[r * len(io):(r + 1) * len(io)] for r in range(len(vi))]
                out.append({"vi": vi, "io": io, z: rows})
                if ci % 3 == 0:  # the same table with its vi rows listed in descending order
                    out.append({"vi": vi[::-1], "io": io, z: rows[::-1]})
    if z in ("ig", "vdrop"):  # exact zeros inside a 2-D table (a legal tabulated value, not "outside the hull")
        a, b, c = vals
        out.append({"vi": [2.5, 5.0], "io": [0.0, 0.2, 0.9], z: [[0.0, b, c], [a, c, b]]})
        out.append({"vi": [1.0, 3.3, 12.0], "io": [0.1, 0.5], z: [[a, 0.0], [0.0, b], [c, a]]})
    # tables written with Python ints (axes, values, or both): slopes between integer samples are not integers
    if z == "vdrop":
        out.append({"vi": [24], "io": [1, 2, 3, 4], z: [[0, 1, 3, 4]]})
        out.append({"vi": [24.0], "io": [1.0, 2.0, 3.0, 4.0], z: [[0, 1, 3, 4]]})
        out.append({"vi": [24], "io": [1, 2, 4], z: [[0.25, 1.0, 1.5]]})
        out.append({"vi": [10, 20], "io": [1, 3], z: [[0, 1], [1, 3]]})
    if z == "ig":
        out.append({"vi": [24], "io": [1, 2, 4], z: [[0, 1, 2]]})
        out.append({"vi": [10, 20], "io": [1, 3], z: [[0, 1], [1, 2]]})
    if z == "eff":
        out.append({"vi": [24], "io": [1, 2, 4], z: [[1, 1, 1]]})
    a_, b_, c_ = vals   # 1-D axes spanning many decades (still well-conditioned: steps >= 1e-4 of the largest coordinate is about vi/io TOGETHER only for 2-D)
    out.append({"vi": [3.3], "io": [5e-5, 1e-2, 1.0], z: [[a_, c_, b_]]})
    out.append({"vi": [3.3], "io": [1e-6, 1e-3, 0.5, 2.0], z: [[c_, a_, b_, a_]]})
    if z in ("vdrop", "ig", "eff"):   # integer io axis next to NON-integer vi rows
        a, b, c = vals
        out.append({"vi": [3.3, 12.5], "io": [1, 2, 5], z: [[a, b, c], [c, a, b]]})
        out.append({"vi": [12.5, 3.3], "io": [1, 2, 5], z: [[c, a, b], [a, b, c]]})
    if z == "vdrop":   # drops written with a negative sign are magnitudes (tables as well as constants)
        a, b, c = vals
        out.append({"vi": [3.3], "io": [0.1, 0.5], z: [[-a, -c]]})
        out.append({"vi": [3.3], "io": [0.05, 0.1, 0.4, 1.0], z: [[-b, -b, -b, -b]]})
        out.append({"vi": [2.5, 5.0], "io": [0.0, 0.2, 0.9], z: [[-a, -b, -c], [-b, -c, -a]]})
    if z == "ig":  # micro-amp scale io axes (absolute epsilons in the clamping code would show here)
        for io in ([1e-6, 2e-6, 4e-6], [1e-7, 3e-7, 5e-7]):
            # 1-D only: a 2-D table with a micro-amp io axis next to a volt-scale vi axis is not "well-conditioned" in the sense of the
            # property (axis steps >= 1e-4 of the largest coordinate) -- the Delaunay triangulation misbehaves there on the unchanged tree too
            out.append({"vi": [3.3], "io": io, z: [[vals[2], vals[0], vals[1]]]})
    return out


def readback(carrier, r):
    vin, vout, iin, iout = g(r, "Vin (V)"), g(r, "Vout (V)"), g(r, "Iin (A)"), g(r, "Iout (A)")
    if carrier == "conv-eff":
        return abs(vout * iout / (vin * iin)) if iin else float("nan")
    if carrier == "vloss-vdrop":
        return abs(vin) - abs(vout)
    if carrier.startswith("rect-vdrop"):
        return (abs(vin) - abs(vout)) / 2.0
    return iin - iout


def check_pair(case):
    """two tabulated components alive in ONE system and evaluated at the same (io, vi): neither may see the other's table."""
    res = Res()
    (c1, t1), (c2, t2) = case["a"], case["b"]
    for Vq, Iq in case["queries"]:
        comps = [dict(n="S", k="Source", a=dict(vo=Vq, rs=0.0), p=[], g="", r="")]
        for j, (c, t) in enumerate(((c1, t1), (c2, t2)), 1):
            cc = carrier_comp(c, t, 1 if Vq > 0 else -1)
            comps.append(dict(n="X%d" % j, k=cc["k"], a=cc["a"], p=["S"], g="", r=""))
            comps.append(dict(n="L%d" % j, k="ILoad", a=dict(ii=Iq), p=["X%d" % j], g="", r=""))
        s = build(dict(name="pair", phases=None, comps=comps))
        for rep in range(2):  # the second solve must agree with the first
            try:
                df, _ = quiet_call(s.solve)
            except Exception as e:
                res.v(("C10.pair-raises", type(e).__name__), "%s" % e)
                break
            o = observe(df)
            res.stats["evaluations"] += 1
            for j, (c, t) in enumerate(((c1, t1), (c2, t2)), 1):
                val = readback(c, o[("", "X%d" % j)])
                z = zkey(c)
                flat = [v for row in t[z] for v in row]
                tol = 1e-7 * max(flat) + (1e-9 if z != "ig" else 2e-8)
                kind, e = expectation(t, z, Iq, abs(Vq))
                bad = (abs(val - e) > tol) if kind == "exact" else (val < e[0] - tol or val > e[1] + tol)
                single, _ = probe(c, t, Vq, Iq)
                if bad or single is None or abs(single - val) > tol:
                    res.v(("C10.pair-crosstalk", c, "solve#%d" % (rep + 1)), "tables %r / %r at io=%r vi=%r: component %d reads %r, alone it reads %r, expected %r" % (t1[zkey(c1)], t2[zkey(c2)], Iq, Vq, j, val, single, e))
    res.nontrivial = 1
    res.classes.add("pair")
    return res


def check_nano(case):
    """1-D ground-current tables with nano-amp VALUES: the solver cannot resolve them in Iin (absolute tolerance 1e-8 A), but the Loss cell
    of a loss-free switch is ig x |Vin| computed from the table directly."""
    res = Res()
    t = case["table"]
    for Vq, Iq in case["queries"]:
        spec = dict(name="nano", phases=None, comps=[
            dict(n="S", k="Source", a=dict(vo=Vq, rs=0.0), p=[], g="", r=""),
            dict(n="X", k="PSwitch", a=dict(rs=0.0, ig=t), p=["S"], g="", r=""),
            dict(n="L", k="ILoad", a=dict(ii=Iq), p=["X"], g="", r="")])
        s_ = build(spec)
        if case.get("reload"):   # the table survives save() / from_file() digit for digit
            import os
            from ..common import workdir
            from sysloss.system import System
            pth = os.path.join(workdir("c10"), "n.json")
            s_.save(pth)
            s_, _ = quiet_call(System.from_file, pth)
        df, _ = quiet_call(s_.solve)
        r = observe(df)[("", "X")]
        res.stats["evaluations"] += 1
        val = g(r, "Loss (W)") / abs(Vq)
        kind, e = expectation(t, "ig", Iq, abs(Vq))
        if abs(val - e) > (0.05 * e + 2e-11 if not case.get("reload") else 1e-6 * e):
            res.v(("C10.nano-table",), "table %r io=%r: Loss/|Vin| = %r, tabulated %r" % (t["ig"], Iq, val, e))
    res.nontrivial = 1
    res.classes.add("nano")
    return res


def check_arrayform(case):
    """the table handed over as numpy arrays: same values as the list form, and the component keeps the values it was GIVEN -- editing the
    arrays afterwards does not move a parameter that was supplied earlier."""
    import numpy as np, copy
    res = Res()
    carrier, table = case["carrier"], case["table"]
    z = zkey(carrier)
    for dt in (float, np.float32 if False else float):
        arr = {"vi": np.array(table["vi"], dtype=float), "io": np.array(table["io"], dtype=float), z: np.array(table[z], dtype=float)}
        for Vq, Iq in case["queries"]:
            want, _ = probe(carrier, copy.deepcopy(table), Vq, Iq)
            pol = 1 if Vq > 0 else -1
            c = carrier_comp(carrier, arr, pol)
            spec = dict(name="p", phases=None, comps=[
                dict(n="S", k="Source", a=dict(vo=Vq, rs=0.0), p=[], g="", r=""),
                dict(n="X", k=c["k"], a=c["a"], p=["S"], g="", r=""),
                dict(n="L", k="ILoad", a=dict(ii=Iq), p=["X"], g="", r="")])
            from ..sysmodel import KINDS
            from sysloss.system import System
            from sysloss.components import Source, ILoad
            try:
                comp = KINDS[c["k"]]("X", **c["a"])          # no copy on our side: the constructor sees the caller's arrays
                s = System("p", Source("S", vo=Vq, rs=0.0))
                s.add_comp("S", comp=comp)
                s.add_comp("X", comp=ILoad("L", ii=Iq))
                v1 = readback(carrier, observe(quiet_call(s.solve)[0])[("", "X")])
                keep = {k_: v_.copy() for k_, v_ in arr.items()}
                arr[z] *= 0.5                                 # the caller goes on to derive a variant from his arrays
                arr["io"] *= 2.0
                v2 = readback(carrier, observe(quiet_call(s.solve)[0])[("", "X")])
                for k_ in arr:
                    arr[k_][...] = keep[k_]
            except Exception as e:
                res.v(("C10.array-form-raises", carrier, type(e).__name__), str(e)[:200])
                return res
            res.stats["evaluations"] += 3
            tol = 1e-7 * max(abs(v) for row in table[z] for v in row) + (1e-9 if z != "ig" else 2e-8)
            if want is None or abs(v1 - want) > tol:
                res.v(("C10.array-form-differs", carrier), "io=%r vi=%r: arrays give %r, lists %r" % (Iq, Vq, v1, want))
            if abs(v2 - v1) > tol:
                res.v(("C10.table-follows-caller-array", carrier), "io=%r vi=%r: %r before, %r after the caller edited the arrays he had passed in" % (Iq, Vq, v1, v2))
    res.nontrivial = 1
    res.classes.add("arrayform")
    return res


def check_reusedict(case):
    """ONE table dict object used for two components, edited in place between the two constructor calls: each component evaluates to the values
    the dict held when IT was built."""
    import copy
    from ..sysmodel import KINDS
    from sysloss.system import System
    from sysloss.components import Source, ILoad
    res = Res()
    carrier = case["carrier"]
    z = zkey(carrier)
    T = copy.deepcopy(case["table"])
    def build_and_read(tab, Vq, Iq):
        c = carrier_comp(carrier, tab, 1 if Vq > 0 else -1)
        s = System("p", Source("S", vo=Vq, rs=0.0))
        s.add_comp("S", comp=KINDS[c["k"]]("X", **c["a"]))      # the very dict object
        s.add_comp("X", comp=ILoad("L", ii=Iq))
        return s
    for Vq, Iq in case["queries"]:
        T1 = copy.deepcopy(case["table"])
        for k_ in T:
            T[k_] = copy.deepcopy(T1[k_])
        sA = build_and_read(T, Vq, Iq)
        T2 = copy.deepcopy(T1)
        T2[z] = [[(v * 0.5 + (0.3 if z == "eff" else 0.0)) for v in row] for row in T1[z]]
        T[z] = T2[z]                                        # in-place edit of the SAME dict object (new valid values)
        sB = build_and_read(T, Vq, Iq)
        try:
            vA = readback(carrier, observe(quiet_call(sA.solve)[0])[("", "X")])
            vB = readback(carrier, observe(quiet_call(sB.solve)[0])[("", "X")])
        except Exception as e:
            res.v(("C10.reuse-raises", carrier, type(e).__name__), str(e)[:200])
            continue
        res.stats["evaluations"] += 2
        for tag, tab, val in (("first", T1, vA), ("second", T2, vB)):
            kind, e = expectation(tab, z, Iq, abs(Vq))
            flat = [abs(v) for row in tab[z] for v in row]
            tol = 1e-7 * max(flat) + (1e-9 if z != "ig" else 2e-8)
            bad = (abs(val - e) > tol) if kind == "exact" else (val < e[0] - tol or val > e[1] + tol)
            if bad:
                res.v(("C10.table-dict-reused", carrier, tag), "io=%r vi=%r: the %s component reads %r, its table gives %r" % (Iq, Vq, tag, val, e))
    res.nontrivial = 1
    res.classes.add("reusedict")
    return res


def check_muxtable(case):
    """a multi-input PMux with a 2-D ig table: the lookup uses the voltage of the SELECTED input (the first one is dead here)."""
    res = Res()
    t = case["table"]
    for V2, Iq in case["queries"]:
        comps = [dict(n="S1", k="Source", a=dict(vo=0.0 if case["first"] == "zero" else case["v1"], rs=0.0), p=[], g="", r=""),
                 dict(n="S2", k="Source", a=dict(vo=V2, rs=0.0), p=[], g="", r=""),
                 dict(n="X", k="PMux", a=dict(rs=0.0, ig=t), p=["S1", "S2"], g="", r="", plist=True),
                 dict(n="L", k="ILoad", a=dict(ii=Iq), p=["X"], g="", r="")]
        spec = dict(name="muxtable", phases=None, comps=comps)
        try:
            df, _ = quiet_call(build(spec).solve)
        except Exception as e:
            res.v(("C10.mux-raises", type(e).__name__), str(e))
            continue
        r = observe(df)[("", "X")]
        res.stats["evaluations"] += 1
        sel = V2 if case["first"] == "zero" else case["v1"]
        if g(r, "Vin (V)") != sel:
            res.v(("C10.mux-not-pinned",), "Vin %r expected %r" % (g(r, "Vin (V)"), sel))
            continue
        val = g(r, "Iin (A)") - g(r, "Iout (A)")
        flat = [v for row in t["ig"] for v in row]
        tol = 1e-7 * max(flat) + 2e-8
        kind, e = expectation(t, "ig", Iq, abs(sel))
        bad = (abs(val - e) > tol) if kind == "exact" else (val < e[0] - tol or val > e[1] + tol)
        if bad:
            res.v(("C10.mux-table-lookup", "first-input-" + case["first"]), "table %r io=%r, selected input at %r V (first input at %r V): read %r expected %r" % (t["ig"], Iq, sel, comps[0]["a"]["vo"], val, e))
    res.nontrivial = 1
    res.classes.add("mux-table")
    return res


def check_case(case):
    if case.get("fam") == "pair":
        return check_pair(case)
    if case.get("fam") == "muxtable":
        return check_muxtable(case)
    if case.get("fam") == "nano":
        return check_nano(case)
    if case.get("fam") == "arrayform":
        return check_arrayform(case)
    if case.get("fam") == "reusedict":
        return check_reusedict(case)
    res = Res()
    carrier, table = case["carrier"], case["table"]
    z = zkey(carrier)
    io, vi = table["io"], table["vi"]
    xin, xout = axis_points(io)
    if len(vi) > 1:
        yin, yout = axis_points(sorted(vi))
    else:
        yin, yout = [vi[0], vi[0] * 0.5, vi[0] * 2], []
    if case["tier"] == "quick":
        yout = yout[:1] + yout[-1:]
    flat = [abs(v) for row in table[z] for v in row]
    const = len(set(flat)) == 1
    for x in xin + xout:
        if x == 0.0 and carrier in ("conv-eff", "rect-ig"):
            continue  # io == 0 takes the no-load branch (iq), the table is not consulted
        for y in yin + yout:
            for sg in (1, -1):
                if sg == -1 and case["tier"] == "quick" and (x in xin and x not in io):
                    continue
                try:
                    val, o = probe(carrier, table, sg * y, x)
                except Exception as e:
                    res.v(("C10.probe-raises", carrier, type(e).__name__), "%s at io=%r vi=%r: %s" % (carrier, x, sg * y, e))
                    continue
                res.stats["evaluations"] += 1
                res.stats["transitions"] += 1
                if val is None:
                    res.v(("C10.probe-not-pinned", carrier), "io=%r vi=%r" % (x, sg * y))
                    continue
                inside = io[0] <= x <= io[-1] and (len(vi) == 1 or min(vi) <= y <= max(vi))
                where = ("grid" if (x in io and (len(vi) == 1 or y in vi)) else "inside") if inside else "outside"
                if not math.isfinite(val):
                    res.v(("C10.nan", carrier, "%dD" % (1 if len(vi) == 1 else 2), where), "io=%r vi=%r -> %r" % (x, sg * y, val))
                    continue
                kind, e = expectation(table, z, x, y)
                tol = 1e-7 * max(flat) + (1e-9 if z != "ig" else 2e-8)
                if kind == "exact":
                    if abs(val - e) > tol:
                        res.v(("C10.value", carrier, "%dD" % (1 if len(vi) == 1 else 2), where), "table %r io=%r vi=%r: read %r expected %r" % (table, x, sg * y, val, e))
                else:
                    if val < e[0] - tol or val > e[1] + tol:
                        res.v(("C10.cell-range", carrier, where), "table %r io=%r vi=%r: read %r corners %r" % (table, x, sg * y, val, e))
                if where != "grid":
                    res.nontrivial = 1
                res.classes.add("%s:%s" % ("1D" if len(vi) == 1 else "2D", where))
                if const:
                    c2, _ = probe(carrier, table[z][0][0], sg * y, x)   # the constant as written (sign included)
                    if c2 is None or abs(c2 - val) > tol:
                        res.v(("C10.constant-table", carrier), "io=%r vi=%r: table %r constant %r" % (x, sg * y, val, c2))
                    res.stats["constant_equiv"] += 1
    return res


def gen_cases(tier):
    carriers = CARRIERS
    for carrier in carriers:
        for j, t in enumerate(tables(tier, zkey(carrier))):
            if "/" in carrier and tier == "quick" and j % 5:   # the two-table Rectifier: every 5th table of the menu in the quick tier
                continue
            yield dict(carrier=carrier, table=t, tier=tier)
    yield from gen_pairs(tier)
    for tv in ([2e-9, 6e-9, 11e-9], [9e-9, 3e-9, 1e-9], [5e-9, 5e-9, 5.5e-9]):
        yield dict(fam="nano", table={"vi": [5.0], "io": [0.01, 0.1, 0.5], "ig": [tv]}, queries=[[5.0, 0.01], [5.0, 0.1], [5.0, 0.3], [5.0, 0.5], [-5.0, 0.1], [5.0, 2.0]])
    for tv in ([3.194e-8, 6.17e-8, 1.2345e-9], [2.00000017e-7, 4.4649829743e-7, 9.87654321e-10]):   # the grid-point values of a reloaded system
        yield dict(fam="nano", reload=True, table={"vi": [5.0], "io": [0.01, 0.1, 0.5], "ig": [tv]}, queries=[[5.0, 0.01], [5.0, 0.1], [5.0, 0.5]])
    for carrier in CARRIERS[:7]:
        z_ = zkey(carrier)
        v_ = VALS[z_]
        # 1-D tables only: the constructors concatenate the axes of a 2-D table as LISTS, numpy arrays are not an accepted form there
        for t in ({"vi": [3.3], "io": [0.1, 0.4, 1.0], z_: [[v_[0], v_[2], v_[1]]]}, {"vi": [5.0], "io": [0.05, 0.2], z_: [[v_[1], v_[0]]]}):
            yield dict(fam="arrayform", carrier=carrier, table=t, queries=[[3.3, 0.4], [5.0, 0.25], [-3.3, 0.7], [4.0, 0.2]])
        for t in ({"vi": [3.3], "io": [0.1, 0.4, 1.0], z_: [[v_[0], v_[2], v_[1]]]}, {"vi": [2.5, 5.0], "io": [0.0, 0.2, 0.9], z_: [[v_[0], v_[1], v_[2]], [v_[1], v_[2], v_[0]]]}):
            yield dict(fam="reusedict", carrier=carrier, table=t, queries=[[3.3, 0.4], [5.0, 0.2], [2.5, 0.9], [4.0, 0.55]])
    vals = VALS["ig"]
    for io, vi in (([0.0, 0.2, 0.9], [2.5, 5.0]), ([0.1, 0.5], [1.0, 3.3, 12.0])):
        for k in range(3):
            rows = [[vals[(i + j + k) % 3] for j in range(len(io))] for i in range(len(vi))]
            queries = [[v, i] for v in (vi[0], vi[-1], (vi[0] + vi[-1]) / 2, vi[-1] * 2) for i in (io[0] if io[0] > 0 else io[1], io[-1], (io[0] + io[-1]) / 2)]
            yield dict(fam="muxtable", table={"vi": vi, "io": io, "ig": rows}, first="zero", v1=0.0, queries=queries)
            yield dict(fam="muxtable", table={"vi": vi, "io": io, "ig": rows}, first="live", v1=vi[0], queries=queries)


def gen_pairs(tier):
    io, vi = [0.0, 0.2, 0.9], [2.5, 5.0]
    io2, vi2 = [0.1, 0.5], [1.0, 3.3, 12.0]
    queries = [[3.3, 0.5], [5.0, 0.2], [12.0, 1.0], [1.0, 0.05], [20.0, 2.0], [-3.3, 0.5], [-20.0, 2.0], [4.0, 0.9], [2.5, 1.5]]
    combos = [("vloss-vdrop", "vloss-vdrop"), ("pswitch-ig", "pswitch-ig"), ("conv-eff", "conv-eff"), ("linreg-ig", "pmux-ig"), ("rect-vdrop", "vloss-vdrop"), ("rect-ig", "pswitch-ig")]
    for ca, cb in combos:
        va, vb = VALS[zkey(ca)], VALS[zkey(cb)]
        def T(c, vals, io_, vi_, k):
            z = zkey(c)
            rows = [[vals[(i + j + k) % 3] for j in range(len(io_))] for i in range(len(vi_))]
            return {"vi": vi_, "io": io_, z: rows}
        for k1, k2 in ((0, 1), (1, 2), (0, 0)):
            yield dict(fam="pair", a=[ca, T(ca, va, io, vi, k1)], b=[cb, T(cb, vb, io, vi, k2)], queries=queries)        # same axes, different values
            yield dict(fam="pair", a=[ca, T(ca, va, io, vi, k1)], b=[cb, T(cb, vb, io2, vi2, k2)], queries=queries)     # different axes
        yield dict(fam="pair", a=[ca, {"vi": vi, "io": io, zkey(ca): [[va[0]] * 3, [va[0]] * 3]}], b=[cb, {"vi": vi, "io": io, zkey(cb): [[vb[2]] * 3, [vb[2]] * 3]}], queries=queries)  # two constant tables


def replay(doc):
    r = check_case(doc["case"])
    for sig, detail in r.viol[:10]:
        print("  ", sig, detail)
    return [s for s, _ in r.viol]


def main(tier):
    run = Run(PROP, tier, replay)
    run.map(check_case, gen_cases(tier), chunk=2, family="tables")
    for c in ("1D:grid", "1D:inside", "1D:outside", "2D:grid", "2D:inside", "2D:outside"):
        run.require(c in run.classes, "query class %s never observed" % c)
    run.require(run.stats["constant_equiv"] > 50, "no constant-table equivalences")
    return run.finish(
        rule="E4: 7 carriers (Converter eff, VLoss vdrop, LinReg/PSwitch/PMux/Rectifier ig, Rectifier vdrop) x all 3^k value assignments of 1-D tables with 1..4 io points and of "
             "2x2 tables, five structured families (planar, saddle, monotone, constant, peak) for 2x3, 3x2, 3x3 (thorough: every 7th assignment as well) x the query lattice "
             "(every grid point, mid and quarter points of every edge, cell centres, outside in every direction incl. far outside and corners) x both supply signs. "
             "evaluations = solve() calls of the probe system. non-trivial = table with at least one off-grid query. Plus pairs of tabulated components (same / different axes, same / different carriers) alive in one system and queried at the same point, solved twice. Lattice statement only (the property quantifies over the reals).",
        assumptions=["parameter read back from solved Vin/Vout/Iin/Iout (1e-7 relative)", "inside a 2-D cell only the corner range is demanded (triangulation dependent)"])

"""C02 -- energy conservation and exact loss / efficiency / temperature accounting.
Same E1 tree space as C01, crossed with the ambient temperature menu; the oracle works on the returned table alone."""
from ..common import Run, Res, seed
from ..sysmodel import Trees, SIG_FULL, SIG_MID, SIG_DEEP
from ..sysmodel import spec_from_forest, PH2, pc_options, with_phases
from .. import phys
from . import c01

PROP = "C02"
SRS = c01.SRS


def check_case(case):
    if case["fam"] == "mux":
        from ..muxsys import mux_spec
        r = Res()
        spec = mux_spec([tuple(x) for x in case["inputs"]], case["pal"], case["rs_list"], below="deep", pol=case["pol"], ig_table=case.get("ig_table", False))
        _, obs_ = phys.solve_and_check(r, spec, ("C02", "C07"), case["ta"], holes=case.get("holes"))
        if obs_ is not None:   # per-source balance: each Subsystem row carries its source's power and the losses of exactly the rows it powers
            from ..sysmodel import resolve, g
            from ..common import close
            d_ = resolve(spec)
            for ph in spec["phases"]:
                phys.check_phase(Res(), spec, obs_, ph, case["ta"], ("C07",), d_)   # fills _dom
                for sname in [n for n in d_ if d_[n]["k"] == "Source"]:
                    srow = obs_.get((ph, "Subsystem " + sname))
                    if srow is None:
                        continue
                    el = sum(g(obs_[(ph, n)], "Loss (W)") for n in d_ if d_[n].get("_dom") == sname)
                    if not close(g(srow, "Power (W)"), g(obs_[(ph, sname)], "Power (W)"), 1e-9, 1e-15) or not close(g(srow, "Loss (W)"), el, 1e-9, 1e-15):
                        r.v(("C02.subsystem-balance",), "phase %r Subsystem %s: P %r L %r; its source delivers %r, the rows it powers lose %r" % (
                            ph, sname, g(srow, "Power (W)"), g(srow, "Loss (W)"), g(obs_[(ph, sname)], "Power (W)"), el))
    elif case["fam"] == "spread":
        # an amps-level branch beside a deep micro-amp regulator chain: the books of the SMALL rows must close too (Loss <= Power, P - L = |Vo| Io)
        from .c01 import spread_spec
        r = Res()
        spec = spread_spec(case["depth"], case["heavy"], case["micro"], case["pol"])
        for c in spec["comps"]:
            if c["k"] in ("Converter", "LinReg"):
                c["a"]["rt"] = 50.0
        phys.solve_and_check(r, spec, ("C02",), case["ta"])
    elif case["fam"] == "phase":
        r = Res()
        spec = spec_from_forest(case["f"], case["pal"], case["pol"], case["srs"])
        spec = with_phases(spec, PH2, {case["who"]: case["pc"]})
        phys.solve_and_check(r, spec, ("C02",), case["ta"])
    elif case["fam"] == "c05edit":   # the edit histories of C05 (rename / re-rail / hand-over / delete an input), judged by the energy book-keeping
        from . import c05
        r = Res()
        old = c05.WANT
        c05.WANT = ("C02",)
        try:
            r5 = c05.check_case(case["case"])
        finally:
            c05.WANT = old
        for sig, det in r5.viol:
            if len(sig) > 1 and sig[1] == "C02.trise":
                r.v(tuple(sig[1:]), det)          # keeps the signature of the recorded finding KF-04 (rise of a load with loss=False)
            elif len(sig) > 1 and sig[1].startswith("C02."):
                r.v(("C02.after-edit",) + tuple(sig[1:]), det)
            elif sig[0] == "C05.after-edit-solve-raises":
                r.v(("C02.after-edit", "solve-raises") + tuple(sig[1:]), det)
        r.stats.update(r5.stats)
    elif case["fam"] == "orderstruct":
        # two-source structures of C07 (mux inputs up to two elements away from their source), reached through an edit history with an analysis in the middle
        from . import c07
        r = Res()
        struct = {k: (v[0], tuple(v[1])) for k, v in case["struct"].items()}
        orders = c07.linear_extensions(struct)
        if not case.get("holes"):
            orders = orders[:1]
        elif len(struct) > 6:
            orders = orders[::max(1, len(orders) // 12)]   # larger structures: a dozen construction orders spread over the list
        for order in orders:   # the construction order decides which component re-uses the freed node index
            spec = c07.to_spec(struct, order, case["pal"], case["volts"], case["phased"])
            phys.solve_and_check(r, spec, ("C02",), case["ta"], holes=case.get("holes"))
    elif case["fam"] == "taseq":
        # ONE system analysed at several ambient temperatures in a row: every table obeys peak = ta + rise for ITS ta
        from ..sysmodel import build, observe, resolve
        from ..common import quiet_call
        r = Res()
        spec = spec_from_forest(case["f"], case["pal"], 1, SRS)
        s = build(spec)
        d = resolve(spec)
        for ta in (25.0, 70.0, -20.0, 25.0):
            try:
                df, _ = quiet_call(s.solve, ta=ta)
            except (RuntimeError, ValueError):
                break
            sub = Res()
            phys.check_phase(sub, spec, observe(df), "", ta, ("C02",), d)
            r.stats.update(sub.stats)
            r.viol += [(("C02.repeated-solve",) + sig, "ta=%g: %s" % (ta, det)) for sig, det in sub.viol if not (sig[0] == "C02.trise")]
            r.viol += [(sig, det) for sig, det in sub.viol if sig[0] == "C02.trise"]
    elif case["fam"] == "names":
        r = Res()
        spec = spec_from_forest(case["f"], case["pal"], 1, SRS)
        ren = {}
        for c, nm in zip(spec["comps"][1:], ["Audio Subsystem", "System aux", "Subsystem-2 total", "average load"]):
            ren[c["n"]] = nm
        for c in spec["comps"]:
            c["n"] = ren.get(c["n"], c["n"])
            c["p"] = [ren.get(q, q) for q in c["p"]]
        phys.solve_and_check(r, spec, ("C02",), case["ta"])
    else:
        r = c01.check_case(dict(case, mirror=False), want=("C02",))
    # non-trivial: >= 2 lossy elements and a load counted as loss (DESIGN A.6)
    r.nontrivial = 1 if (r.stats["lossy_rows"] >= 2 and r.stats["lossload_rows"] >= 1) else 0
    return r


def gen_cases(tier):
    sd = seed()
    pals = [sd % 3] if tier == "quick" else [0, 1, 2]
    full, mid, deep = Trees(*SIG_FULL), Trees(*SIG_MID), Trees(*SIG_DEEP)
    if tier == "quick":
        plan = [("full", full, [1, 2], [(1, 0.0, 25.0), (1, SRS, -40.0), (-1, SRS, 25.0), (-1, 0.0, 0.0)]),
                ("full", full, [3], [(1, SRS, -40.0)]),
                ("deep", deep, [4, 5], [(1, SRS, 85.0)])]
    else:
        plan = [("full", full, [1, 2], [(p, r, ta) for p in (1, -1) for r in (0.0, SRS) for ta in (-40.0, 0.0, 25.0, 85.0)]),
                ("full", full, [3], [(1, SRS, -40.0), (1, 0.0, 85.0), (-1, 0.0, 0.0), (-1, SRS, 25.0)]),
                ("mid", mid, [4], [(1, SRS, -40.0), (-1, 0.0, 85.0)]),
                ("deep", deep, [4, 5, 6], [(1, SRS, 0.0)])]
    for pal in pals:
        for fam, T, ns, variants in plan:
            for n in ns:
                for f in T.iter_forests(n):
                    for pol, srs, ta in variants:
                        yield dict(fam=fam, f=f, pal=pal, pol=pol, srs=srs, n=n, ta=ta)
        # with phases: one component at a time gets each phase configuration (inactive elements, sleeping loads,
        # dead rows next to live rows that show the temperature columns)
        for n in ((1, 2) if tier == "quick" else (1, 2, 3)):
            for f in mid.iter_forests(n):
                spec = spec_from_forest(f, pal, 1, SRS)
                for c in spec["comps"]:
                    for pc in pc_options(c, PH2)[1:]:
                        yield dict(fam="phase", f=f, pal=pal, pol=1, srs=SRS, n=n, ta=-40.0, who=c["n"], pc=pc)
        for n in (1, 2):
            for f in full.iter_forests(n):
                yield dict(fam="taseq", f=f, pal=pal, pol=1, srs=SRS, n=n, ta=25.0)
        for n in (1, 2, 3):   # components whose NAMES contain the words used by the summary rows
            for f in deep.iter_forests(n):
                yield dict(fam="names", f=f, pal=pal, pol=1, srs=SRS, n=n, ta=25.0)
        from ..sysmodel import SIG_ZERO
        zero = Trees(SIG_ZERO[0], SIG_ZERO[1], max_one=("MX0",))
        for n in (1, 2, 3):
            for f in zero.iter_forests(n):
                yield dict(fam="zero", f=f, pal=pal, pol=1, srs=SRS, n=n, ta=-40.0)
        # multi-input PMux systems: the mux row's Vin / Power / Loss follow the SELECTED input (first input dead in many of them)
        from ..muxsys import INPUT_OPTS
        import itertools
        for k in (2, 3):
            for inputs in itertools.product(INPUT_OPTS if k == 2 or tier != "quick" else INPUT_OPTS[:4], repeat=k):
                yield dict(fam="mux", inputs=[list(x) for x in inputs], pal=pal, rs_list=(k == 3), pol=1, srs=0.0, n=k, ta=25.0)
                if k == 2:
                    yield dict(fam="mux", inputs=[list(x) for x in inputs], pal=pal, rs_list=False, pol=1, srs=0.0, n=k, ta=25.0, ig_table=True)
                # the same system reached through an edit history (a chain element may get a LOWER node index than its own source)
                yield dict(fam="mux", inputs=[list(x) for x in inputs], pal=pal, rs_list=(k == 3), pol=1, srs=0.0, n=k, ta=25.0, holes="analysed")
        if pal == sd % 3 or tier != "quick":
            for depth in (2, 3, 4, 5, 6):
                for heavy in (0.5, 20.0, 100.0):
                    for micro in (2e-6, 8e-5, 1e-3):
                        for pol in (1, -1):
                            yield dict(fam="spread", depth=depth, heavy=heavy, micro=micro, pol=pol, pal=pal, srs=0.0, n=depth + 2, ta=40.0)
        for n1 in (1, 2):
            for f1 in mid.iter_forests(n1):
                for f2 in mid.iter_forests(1):
                    if str(f1).count("MX") + str(f2).count("MX") > 1:
                        continue
                    yield dict(fam="two", f=f1, f2=f2, pal=pal, pol=1, srs=SRS, n=n1 + 1, ta=-40.0)
        from . import c05
        for c5 in c05.gen_edits(tier, pal):
            if c5.get("handover") or c5.get("rename"):
                yield dict(fam="c05edit", case=c5, pal=pal, pol=1, srs=0.0, n=len(c5["inputs"]), ta=25.0)
        from . import c07
        for st in c07.structures("quick"):
            if "M" in st:
                for volts in ((1, 1, 1), (0, 1, 1), (1, 0, 1)):
                    for holes in (None, "analysed"):
                        yield dict(fam="orderstruct", struct={k: [v[0], list(v[1])] for k, v in st.items()}, pal=pal, volts=list(volts), phased=(holes is None), ta=25.0, holes=holes, n=len(st))


def replay(doc):
    r = check_case(doc["case"])
    for sig, detail in r.viol:
        print("  ", sig, detail)
    return [s for s, _ in r.viol]


def main(tier):
    run = Run(PROP, tier, replay)
    run.map(check_case, gen_cases(tier), chunk=64, family="trees")
    run.require(run.stats["temp_rows"] > 100, "no rows with a temperature rise")
    return run.finish(
        rule="E1 tree space of C01 (full alphabet n<=3, deep chains, two-source forests) x ambient temperature menu x polarity x source rs; "
             "oracle on the table only: P-L=|Vout|*Iout, 0<=L<=P, Eff=100(P-L)/P in [0,100], load consumption in exactly one of Power/Loss, "
             "sum(source P)=sum(load P)+sum(Loss), rise=rt*Loss and peak=ta+rise for every non-source row (literal reading). "
             "Plus amps-level loads (to 100 A) beside micro-amp regulator chains of depth 2..6 with thermal resistances (the small rows' books must close too). "
             "non-trivial = solved system in which a row took a non-default law branch; temp_rows counts rows with rt*Loss>0.",
        assumptions=["numeric values limited to the palettes", "trees up to the stated node bound"])

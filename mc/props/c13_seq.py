"""Run in a FRESH interpreter by C13: loader calls of two kinds in a given order, so that state cached at class / module level by the
first use of one kind (and inherited or shared by another) is exercised from a known starting point.  Prints a JSON list of violations."""
import sys, json, os, copy, tempfile


def main():
    k1, k2, wd = sys.argv[1], sys.argv[2], sys.argv[3]
    sys.path.insert(0, os.path.dirname(os.path.dirname(os.path.dirname(os.path.abspath(__file__)))))
    from mc.props import c13
    import toml
    from mc.sysmodel import KINDS
    out = []

    def write(section, params, limits):
        doc = {section: params}
        if limits is not None:
            doc["limits"] = limits
        path = os.path.join(wd, "seq-%d.toml" % os.getpid())
        with open(path, "w") as f:
            f.write(toml.dumps(doc))
        return path

    def full(kind):
        section, mand, opt = c13.SCHEMA[kind]
        P = {k: v[0] for k, v in mand.items()}
        P.update({k: v[0] for k, v in opt.items()})
        return section, mand, opt, P

    # 1. first kind: a plain, complete load (primes whatever the loader caches)
    s1, m1, o1, P1 = full(k1)
    try:
        KINDS[k1].from_file("A", fname=write(s1, P1, c13.LIMITS))
    except Exception as e:
        out.append([["C13.seq-first-load-raises", k1, type(e).__name__], str(e)])
    # 2. second kind: each mandatory key missing -> KeyError
    s2, m2, o2, P2 = full(k2)
    for key in m2:
        P = {k: v for k, v in P2.items() if k != key}
        try:
            KINDS[k2].from_file("X", fname=write(s2, P, None))
            out.append([["C13.seq-missing-key-accepted", k2, key, "after:" + k1], "P=%r" % (P,)])
        except KeyError:
            pass
        except Exception as e:
            out.append([["C13.seq-missing-key-wrong-exception", k2, key, type(e).__name__, "after:" + k1], str(e)])
    # 3. second kind: complete load with OTHER limits == constructor; and the first component must be untouched by it
    L2 = {"vi": [0.0, 2.5], "tp": [-10.0, 40.0]}
    try:
        c2 = KINDS[k2].from_file("X", fname=write(s2, P2, L2))
        ref = KINDS[k2]("X", **dict(copy.deepcopy(P2), limits=copy.deepcopy(L2)))
        a, b = c13.probe(k2, c2), c13.probe(k2, ref)
        if a != b:
            out.append([["C13.seq-differs-from-constructor", k2, "after:" + k1], "second load differs from the constructor call"])
    except Exception as e:
        out.append([["C13.seq-second-load-raises", k2, type(e).__name__, "after:" + k1], str(e)])
    # 4. same path re-written with other content must be re-read
    if k2 != "LinReg":
        key = list(m2)[0] if m2 else list(o2)[0]
        forms = (m2.get(key) or o2.get(key))
        if len(forms) > 1 and not isinstance(forms[1], (dict, list)):
            P = dict(P2)
            P[key] = forms[1]
            try:
                c3 = KINDS[k2].from_file("X", fname=write(s2, P, L2))
                ref3 = KINDS[k2]("X", **dict(copy.deepcopy(P), limits=copy.deepcopy(L2)))
                if c13.probe(k2, c3) != c13.probe(k2, ref3):
                    out.append([["C13.seq-stale-file-content", k2], "file re-written with %s=%r but the loader returned the old component" % (key, forms[1])])
            except Exception as e:
                out.append([["C13.seq-reload-raises", k2, type(e).__name__], str(e)])
    print("C13SEQ" + json.dumps(out))


if __name__ == "__main__":
    main()

"""C16 -- results depend on the final structure only, not on the edit history.
E2: on every distinct state reached by accepted edits: (i) every report succeeds; (ii) the structure read from the object equals the reference edit
semantics applied to the history (mc.e2.model_apply; a SET of acceptable structures where the documentation leaves the outcome open); (iii) every report
equals that of a system built from scratch, in canonical order, with that structure."""
import json
from ..common import workdir as _wd, cleanup_workdir as _cw, Run, Res, seed
from .. import e2
from ..reports import all_reports, diff_reports

PROP = "C16"
REPORTS = ["solve_energy", "rail_rep", "params", "limits", "phases", "tree", "save", "diag"]
_FRESH = {}


def fresh_reports(model):
    k = json.dumps(model, sort_keys=True)
    if k not in _FRESH:
        if len(_FRESH) > 20000:
            _FRESH.clear()
        try:
            _FRESH[k] = all_reports(e2.build_fresh(model), REPORTS)
        except Exception as e:
            _FRESH[k] = ("BUILD-EXC", type(e).__name__, str(e)[:100])
    return _FRESH[k]


def save_order_free(rep):
    """the saved registries are dicts whose order follows the history; compare them as mappings."""
    return rep


def state_check(sd, hist):
    v = []
    s = e2.mk(sd)
    ghost = ()
    models = [{"comps": {"S1": dict(letter="S", parents=[], rail="Q0" if sd in ("rails", "railmux") else "", group="", pc="{}")}, "phases": "{}"}]
    accepted_any = False
    for op in e2.SEEDS[sd] + list(hist):
        ghost, exc = e2.step(s, ghost, op)
        if exc is None:
            models = e2.model_apply(models, op)
    last = hist[-1][0] if hist else "init"
    real = e2.kstruct(s)
    diffs = [e2.struct_matches(real, m) for m in models]
    ok = [m for m, d in zip(models, diffs) if not d]
    if not ok:
        v.append(((PROP + ".structure", last, diffs[0][0].split(" ", 2)[1] if diffs[0] and " " in diffs[0][0] else "components"), "after %r: %s" % (hist[-1] if hist else None, diffs[0][:3])))
        return v
    reps = all_reports(s, REPORTS)
    for name, r in reps.items():
        if isinstance(r, tuple) and r and r[0] == "EXC":
            if name in ("solve", "solve_energy", "rail_rep", "diag") and (r[1] == "RuntimeError" or "Unstable" in r[2] or "rs list has too few elements" in r[2]):
                continue   # documented refusals of the solver (a PMux whose per-input resistance list is shorter than the input it has to use)
            v.append(((PROP + ".report-fails", name, r[1], last), "after %r: %s" % (hist[-1] if hist else None, r[2])))
    if v:
        return v
    # every report lists exactly the live components, and two reports of the same thing agree with each other
    live = set(real["comps"])
    def comps_of(rep):
        r = reps.get(rep)
        if isinstance(r, dict):
            return set(k[-2] if rep != "phases" else k[0] for k in r["rows"] if not str(k[-2] if rep != "phases" else k[0]).startswith(("Subsystem ", "System ")))
        return None
    for rep in ("solve_energy", "params", "limits"):
        cs = comps_of(rep)
        if cs is not None and cs != live:
            v.append(((PROP + ".component-set", rep, last), "%s lists %r, live components are %r" % (rep, sorted(cs), sorted(live))))
    t = reps.get("tree")
    if isinstance(t, tuple) and t[0] == "tree":
        tn = set(n for _, n in t[1]) - {"t"}
        if tn != set(x.strip() for x in live):   # tree() is text: leading / trailing blanks of a name cannot be told apart there
            v.append(((PROP + ".component-set", "tree", last), "tree() shows %r, live %r" % (sorted(tn), sorted(live))))
    dg = reps.get("diag")
    if isinstance(dg, tuple) and dg[0] == "diag" and set(dg[1]) != live:
        v.append(((PROP + ".component-set", "diag", last), "diagram nodes %r, live %r" % (sorted(dg[1]), sorted(live))))
    pl, li = reps.get("params"), reps.get("limits")
    if isinstance(pl, dict) and isinstance(li, dict):
        for k, row in li["rows"].items():
            prow = pl["rows"].get(k, {})
            for col, val in row.items():
                pc = col.replace(" (", " limit (", 1) if " limit" not in col and col not in ("Component", "Type") else col
                pc = __import__("re").sub(r"\s+", " ", pc)
                cand = [c for c in prow if __import__("re").sub(r"\s+", " ", c) == pc]
                if cand and prow[cand[0]] != val:
                    v.append(((PROP + ".limits-vs-params", col, last), "%s: limits() %r, params(limits=True) %r" % (k[0], val, prow[cand[0]])))
    # params() / phases() show what each component was configured with (direct oracle from the reference structure, not a differential)
    model = ok[0]
    PCOL = {"R": {"rs (Ohm)": 0.5}, "W": {"rs (Ohm)": 0.5}, "C": {"vo (V)": 3.3, "eff (%)": 0.9, "iq (A)": 1e-3, "iis (A)": 1e-4},
            "I": {"ii (A)": 0.1, "iis (A)": 1e-3}, "M": {"rs (Ohm)": 0.1, "ig (A)": 1e-4}, "m": {"ig (A)": 1e-4}, "S": {"vo (V)": 5.0, "rs (Ohm)": 0.05}, "D": {"vdrop (V)": 0.2}}
    if isinstance(pl, dict):
        for n, m in model["comps"].items():
            row = pl["rows"].get((n, 0))
            if row is None:
                continue
            for col, val in PCOL[m["letter"]].items():
                if row.get(col) != val:
                    v.append(((PROP + ".params-shows", m["letter"], col, last), "%s: params() shows %r for %s, configured %r" % (n, row.get(col), col, val)))
    if isinstance(li, dict):   # limits(): exactly the non-default limits each component was configured with
        LIMCOL = {"vi": "vi  (V)", "pl": "pl  (W)", "tp": "tp  (°C)"}
        for n, m in model["comps"].items():
            row = li["rows"].get((n, 0))
            if row is None:
                continue
            conf = {"vi": "[0.0, 1.0]", "pl": "[0.0, 1e-06]", "tp": "[0.0, 1000000.0]"} if m["letter"] == "W" else {}
            for key, col in LIMCOL.items():
                cell = row.get(col)
                exp = conf.get(key, "")
                if (json.dumps(json.loads(cell)) if isinstance(cell, str) and cell.startswith("[") else cell) != (json.dumps(json.loads(exp)) if exp else ""):
                    v.append(((PROP + ".limits-shows", m["letter"], key, last), "%s: limits() shows %r for %s, configured %r" % (n, cell, key, exp or "default")))
    ph_rep = reps.get("phases")
    sysph = json.loads(model["phases"])
    if isinstance(ph_rep, dict) and sysph:
        for n, m in model["comps"].items():
            pc = json.loads(m["pc"])
            L = m["letter"]
            if L in ("R", "W", "D"):   # elements without phase behaviour are listed once, as "N/A" (phases() covers ALL components)
                exp = {"N/A": None}
            elif L == "I":
                keys = [p_ for p_ in sysph if isinstance(pc, dict) and p_ in pc]
                exp = {p_: pc[p_] for p_ in keys} if keys else {"N/A": 0.1}
            else:
                keys = [p_ for p_ in sysph if pc and p_ in pc]
                exp = {p_: None for p_ in keys} if keys else {"N/A": None}
            got = {k[1]: r for k, r in ph_rep["rows"].items() if k[0] == n}
            if set(got) != set(exp):
                v.append(((PROP + ".phases-shows", L, "active-phases", last), "%s: phases() lists %r, configured %r" % (n, sorted(got), sorted(exp))))
                continue
            if L == "I":
                for p_, val in exp.items():
                    if got[p_].get("ii (A)") != val:
                        v.append(((PROP + ".phases-shows", L, "value", last), "%s phase %s: phases() shows ii=%r, configured %r" % (n, p_, got[p_].get("ii (A)"), val)))
    fr = fresh_reports(ok[0])
    if isinstance(fr, tuple) and fr and fr[0] == "BUILD-EXC":
        v.append(((PROP + ".fresh-build-fails", fr[1], last), fr[2]))
        return v
    # the save() document lists registries in history order: compare it as a mapping
    a, b = dict(reps), dict(fr)
    for side in (a, b):
        if isinstance(side.get("save"), tuple) and side["save"][0] == "save":
            side["save"] = ("save", json.dumps(json.loads(side["save"][1]), sort_keys=True))
    # "interleaving analyses changes no later result": the same history again for EVERY placement of an analysis bundle between its ops
    # (after the seed and/or after each op but the last): all 2^len(hist) - 1 non-empty placements
    if hist:
        import itertools as _it
        LIGHT = ["solve_energy", "save", "diag"]
        points = list(range(len(hist)))  # point j = just before hist[j]  (0 = right after the seed)
        for r in range(1, len(points) + 1):
            for place in _it.combinations(points, r):
                s2 = e2.mk(sd)
                gh = ()
                for op in e2.SEEDS[sd]:
                    gh, _ = e2.step(s2, gh, op)
                for j, op in enumerate(hist):
                    if j in place:
                        for name in ("solve_energy", "save", "diag"):
                            all_reports(s2, [name])
                    gh, _ = e2.step(s2, gh, op)
                c = all_reports(s2, LIGHT)
                if isinstance(c.get("save"), tuple) and c["save"][0] == "save":
                    c["save"] = ("save", json.dumps(json.loads(c["save"][1]), sort_keys=True))
                bb = {k: b[k] for k in LIGHT}
                for rep, d in diff_reports(c, bb, 1e-9, 1e-12)[:2]:
                    what = __import__("re").sub(r"^\(.*?\)\s*", "", d).split(":")[0][:40] if isinstance(c.get(rep), dict) else "value"
                    v.append(((PROP + ".differs-after-interleaved-analyses", rep, what, last), "after %r with analyses before op(s) %r: %s" % (hist[-1], place, d)))
    for rep, d in diff_reports(a, b, 1e-9, 1e-12)[:3]:
        what = __import__("re").sub(r"^\(.*?\)\s*", "", d).split(":")[0][:40] if isinstance(a.get(rep), dict) else "value"
        v.append(((PROP + ".differs-from-fresh", rep, what, last), "after %r: %s" % (hist[-1] if hist else None, d)))
    return v


def replay(doc):
    c = doc["case"]
    if c.get("kind"):
        r = check_extra(c)
        for sig, det in r.viol:
            print("  ", sig, det)
        return [s_ for s_, _ in r.viol]
    v = state_check(c["seed"], c["hist"])
    for sig, det in v:
        print("  ", sig, det)
    return [tuple(str(x) for x in s_) for s_, _ in v]


def check_extra(case):
    """histories that the edit explorer does not produce: (a) two System objects built from the SAME component objects, the second one edited --
    the first one's reports are those of its structure; (b) a system loaded from a file in the layout of release 1.0.x (no groups / rails tables),
    then edited with group= / rail= arguments, a rename and a delete -- the reports are those of the final structure built from scratch."""
    import json, os, copy
    from ..common import Res, quiet_call, workdir
    from ..reports import all_reports, diff_reports
    from sysloss.system import System
    res = Res()
    sd, hist = case["seed"], case.get("hist", [])
    if case["kind"] == "shared":
        s0, _g = e2.replay(sd, hist)
        want = all_reports(s0, REPORTS)
        A = B = None
        for op in e2.SEEDS[sd] + list(hist):   # replay the same ops on two systems with shared component objects
            pass
        # build A and B from the component objects of s0 (B with shifted node indices), then edit B
        comps = [(n, s0._g[i]) for n, i in s0._g.attrs["nodes"].items()]
        order = [n for n in e2.kstruct(s0)["comps"]]
        st = e2.kstruct(s0)["comps"]
        def mk(shift):
            s = None
            done = []
            names = [n for n in st if st[n]["letter"] == "S"]
            for n in names:
                if s is None:
                    s = System("t", dict(comps)[n], rail=st[n]["rail"], group=st[n]["group"])
                    if shift:
                        from sysloss.components import ILoad
                        s.add_comp(n, comp=ILoad("__shift", ii=0.001))
                else:
                    s.add_source(dict(comps)[n], rail=st[n]["rail"], group=st[n]["group"])
                done.append(n)
            rem = [n for n in st if n not in done]
            while rem:
                for n in list(rem):
                    if all(p in done for p in st[n]["parents"]):
                        ps = st[n]["parents"]
                        s.add_comp(ps if len(ps) > 1 else ps[0], comp=dict(comps)[n], rail=st[n]["rail"], group=st[n]["group"])
                        done.append(n)
                        rem.remove(n)
            ph = json.loads(e2.kstruct(s0)["phases"])
            if ph:
                s.set_sys_phases(ph)
            for n in st:
                pc = json.loads(st[n]["pc"])
                if pc:
                    s.set_comp_phases(n, pc)
            return s
        try:
            A, B = mk(False), mk(True)
            B.solve() if False else None
            for n in list(st):          # edit B: every component replaced under its own name by a fresh object of another value; one leaf deleted
                if st[n]["letter"] in ("R", "C", "S"):
                    B.change_comp(n, comp=e2.LET[{"R": "C", "C": "R", "S": "S"}[st[n]["letter"]]](n) if st[n]["letter"] != "S" else __import__("sysloss.components", fromlist=["Source"]).Source(n, vo=9.0), rail=st[n]["rail"], group=st[n]["group"])
                    break
            B.del_comp("__shift")
            quiet_call(B.save, os.path.join(workdir("c16"), "b.json"))
        except ValueError:
            pass
        except Exception as e:
            res.v((PROP + ".shared-objects-raise", type(e).__name__), str(e)[:200])
            return res
        got = all_reports(A, REPORTS)
        for rep, d in diff_reports(want, got)[:4]:
            res.v((PROP + ".shared-component-objects", rep), "system A (never edited) after system B, built from the same component objects, was edited: %s" % d)
        # A's file loads back into A
        try:
            pth = os.path.join(workdir("c16"), "a.json")
            A.save(pth)
            A2, _ = quiet_call(System.from_file, pth)
            for rep, d in diff_reports(want, all_reports(A2, REPORTS), 1e-9, 1e-12)[:3]:
                res.v((PROP + ".shared-component-objects", "save", rep), "%s" % d)
        except Exception as e:
            res.v((PROP + ".shared-component-objects", "save-raises", type(e).__name__), str(e)[:200])
    else:   # oldfile
        s0, _g = e2.replay(sd, hist)
        pth = os.path.join(workdir("c16"), "old.json")
        s0.save(pth)
        doc = json.load(open(pth))
        doc["system"].pop("groups", None)
        doc["system"].pop("rails", None)
        doc["system"]["version"] = "1.0.0"
        json.dump(doc, open(pth, "w"))
        src0 = [n for n, r_ in e2.kstruct(s0)["comps"].items() if r_["letter"] == "S"][0]
        edits = [["ac", src0, "R", "Zn", "Zr", "Zg"], ["cc", "Zn", "C", "Zm", "Zq", "Zh"], ["ac", "Zq", "I", "Zl", "", "Zg"], ["dc", "Zl", True]]
        try:
            s1, _ = quiet_call(System.from_file, pth)
            s2, _g2 = e2.replay(sd, hist)
            for op in edits:
                e2.apply(s1, op)
                e2.apply(s2, op)
                got, want = all_reports(s1, REPORTS), all_reports(s2, REPORTS)
                for rep, d in diff_reports(want, got, 1e-9, 1e-12)[:3]:
                    res.v((PROP + ".old-format-file-then-edits", rep, op[0]), "after %r: %s" % (op, d))
                if res.viol:
                    break
        except Exception as e:
            res.v((PROP + ".old-format-file-then-edits", "raises", type(e).__name__), str(e)[:200])
    res.nontrivial = 1
    res.classes.add(case["kind"])
    return res


def main(tier):
    run = Run(PROP, tier, replay)
    extra = []
    for sd in e2.SEEDS:
        if sd not in ("blank",):
            extra.append(dict(kind="shared", seed=sd))
        if sd not in ("rails", "railmux", "rerail", "blank"):
            extra.append(dict(kind="oldfile", seed=sd))
    run.map(check_extra, extra, chunk=1, family="extra")
    D, B = (2, 2) if tier == "quick" else (3, 2)
    if tier == "quick":  # budget 1 from every seed, budget 2 from the three richest seeds
        st = e2.explore(run, list(e2.SEEDS), 2, 1, letters="RIM", state_check=state_check, phase_ops=True, analysis_op=True)
        stw = e2.explore(run, ["single", "freed"], 2, 1, letters="WI", state_check=state_check, phase_ops=False)
        for k in ("states", "transitions", "rejected", "states_via_cc", "states_via_dc", "state_checks"):
            st[k] += stw[k]
        st2 = e2.explore(run, ["rails"], 2, 2, letters="CI", state_check=state_check, phase_ops=True)
        for k in ("states", "transitions", "rejected", "states_via_cc", "states_via_dc", "state_checks"):
            st[k] += st2[k]
        st["per_depth_b2"] = st2["per_depth"]
    else:
        st = e2.explore(run, list(e2.SEEDS), D, B, letters="RCIMW", state_check=state_check, phase_ops=True, analysis_op=True, max_states=300000)
    if tier != "quick":
        st2 = e2.explore(run, ["mux", "freed"], 4, 1, letters="RIM", state_check=state_check, phase_ops=False, max_states=150000)
        for k in ("states", "transitions", "rejected", "states_via_cc", "states_via_dc", "state_checks"):
            st[k] += st2[k]
        st["per_depth_d4b1"] = st2["per_depth"]
    run.cases = st["states"]
    run.nontrivial = st["states_via_cc"] + st["states_via_dc"]
    run.samples.append({"seed": "mux", "history": [["cc", "A1", "C", "N1", ""], ["dc", "N1", False]], "note": "rename a mux input, then delete it keeping its children"})
    run.require(run.nontrivial > 100, "too few states reached through change/delete")
    _cw()
    return run.finish(
        rule="E2: every distinct state (K_full) reached by histories of depth <= %d, budget <= %d from 10 seeds (quick: budget 1 from all 8 seeds over letters R,I,M and budget 2 from the rails seed over C,I) (edit + phase ops, re-adding deleted names, 3-input muxes, and a solve(energy=True) call in the middle of the history)%s; per state: reference edit semantics vs the structure read "
             "from the object (names, kinds, parameters, parent lists with PMux priority order, rails, groups, phase configs, system phases), all 8 reports succeed, and all reports equal "
             "(keyed, 1e-9) those of a fresh system built from that structure in canonical order -- for the plain history and for every placement of a solve(energy)/save/make_diag bundle between its ops (after the seed, between the ops). non-trivial = states first reached through change_comp / del_comp." % (
                 D, B, "" if tier == "quick" else "; plus depth 4, budget 1 over 3 letters from the mux and freed-index seeds"),
        states=st["states"], transitions=st["transitions"], traces=st["state_checks"],
        extra={"per_depth": st["per_depth"], "bound_completed": {"depth": D, "budget": B}},
        assumptions=["5-letter component alphabet", "construction-order independence for multi-source structures is covered exhaustively by C07"])

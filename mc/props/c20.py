"""C20 -- PCB trace and plane resistance follow the documented formulas.
E4: full Cartesian grid of (w1, w2, l, t, rho, temp, tcr); oracle = closed form in exact rational arithmetic + the relational laws
(proportionality, inverse proportionality, symmetry, affinity in temperature, trace==plane for w1==w2)."""
import itertools
from fractions import Fraction as F
from ..common import Run, Res, seed
import numpy as np
from sysloss.utils import trace_res, plane_res, RHO, TCR

PROP = "C20"


def grids(tier):
    if tier == "quick":
        W = [0.01, 0.1, 0.254, 1.0, 7.5]            # includes a 10 um thin-film trace
        Ls = [0.5, 1.0, 7.5, 15.0, 350.0]          # includes l == w (exactly one square)
        T = [5e-5, 0.0175, 0.035, 0.0350001, 0.07]  # includes nearly equal thicknesses and a 50 nm film
        R = [RHO, 1.68e-8, 2.65e-8]                # includes nearly equal resistivities
        TE = [20.0, -40.0, 7.0, 21.25, 36.64, 125.0]   # includes temperatures that are not multiples of 0.1 and a whole number below the reference
        TC = [TCR, 0.0, 0.00429, 1.5]             # includes a coefficient above 1 per degree
    else:
        W = [0.001, 0.01, 0.05, 0.1, 0.127, 0.254, 1.0, 3.3, 7.5, 25.0]
        Ls = [0.01, 0.1, 0.5, 1.0, 7.5, 15.0, 25.0, 80.0, 350.0, 1e4]
        T = [5e-5, 1e-3, 0.009, 0.0175, 0.035, 0.0350001, 0.07, 0.105]
        R = [RHO, 1.68e-8, 1.7241e-8, 2.65e-8, 1.0e-6]
        TE = [20.0, -55.0, -40.0, 0.0, 21.25, 36.64, 48.375, 85.0, 125.0]
        TC = [TCR, 0.0, 0.00429, 1e-5, 1.0, 1.5]
    return W, Ls, T, R, TE, TC


SENT_T = dict(w1_mm=0.3, w2_mm=0.25, l_mm=12.0, t_mm=0.035, temp=45.0)
SENT_P = dict(w=4.0, l=9.0, t_mm=0.035, temp=45.0)
SENT0 = (trace_res(**SENT_T), plane_res(**SENT_P), RHO, TCR)   # evaluated at import, before any call with an explicit material


def rel(a, b, tol=1e-12):
    return abs(a - b) <= tol * max(abs(a), abs(b))


def check_case(case):
    res = Res()
    try:
        return _check_case(case, res)
    except Exception as e:   # positive, finite arguments: nothing may raise
        res.v(("C20.raises", type(e).__name__), "%r: %s" % (case, e))
        return res


def _check_case(case, res):
    w1, w2, l, t, rho, te, tc = case
    r = trace_res(w1_mm=w1, w2_mm=w2, l_mm=l, t_mm=t, rho=rho, temp=te, tcr=tc)
    exact = F(rho) * F(l) / (F(1, 2) * (F(w1) + F(w2)) * F(t) / 1000) * (1 + F(tc) * (F(te) - 20))
    if not rel(r, float(exact)):
        res.v(("C20.trace-closed-form",), "%r: %r vs %r" % (case, r, float(exact)))
    p = plane_res(w=w1, l=l, t_mm=t, rho=rho, temp=te, tcr=tc)
    pexact = (F(rho) / (F(t) / 1000)) * F(l) / F(w1) * (1 + F(tc) * (F(te) - 20))
    if not rel(p, float(pexact)):
        res.v(("C20.plane-closed-form",), "%r: %r vs %r" % (case, p, float(pexact)))
    k = 3.0
    tr = lambda **kw: trace_res(**dict(dict(w1_mm=w1, w2_mm=w2, l_mm=l, t_mm=t, rho=rho, temp=te, tcr=tc), **kw))
    pr = lambda **kw: plane_res(**dict(dict(w=w1, l=l, t_mm=t, rho=rho, temp=te, tcr=tc), **kw))
    laws = [("trace-prop-l", tr(l_mm=k * l), k * r), ("trace-prop-rho", tr(rho=k * rho), k * r), ("trace-inv-t", tr(t_mm=k * t), r / k),
            ("trace-inv-w", tr(w1_mm=k * w1, w2_mm=k * w2), r / k), ("trace-sym", tr(w1_mm=w2, w2_mm=w1), r),
            ("plane-prop-l", pr(l=k * l), k * p), ("plane-prop-rho", pr(rho=k * rho), k * p), ("plane-inv-t", pr(t_mm=k * t), p / k),
            ("plane-inv-w", pr(w=k * w1), p / k), ("trace-eq-plane", tr(w2_mm=w1), p)]
    for nm, a, b in laws:
        if not rel(a, b, 1e-11):
            res.v(("C20." + nm,), "%r: %r vs %r" % (case, a, b))
    # affine in temperature: three temperatures collinear
    a, b, c = tr(temp=te), tr(temp=te + 30.0), tr(temp=te + 60.0)
    if not rel(b - a, c - b, 1e-9) and abs((b - a) - (c - b)) > 1e-15 * abs(b):
        res.v(("C20.trace-affine-temp",), "%r" % (case,))
    a, b, c = pr(temp=te), pr(temp=te + 30.0), pr(temp=te + 60.0)
    if not rel(b - a, c - b, 1e-9) and abs((b - a) - (c - b)) > 1e-15 * abs(b):
        res.v(("C20.plane-affine-temp",), "%r" % (case,))
    # defaults: omitting ANY subset of the optional arguments equals passing the documented defaults (rho=RHO, temp=20, tcr=TCR) explicitly
    opt = dict(rho=rho, temp=te, tcr=tc)
    dfl = dict(rho=RHO, temp=20.0, tcr=TCR)
    for omit in (("rho",), ("temp",), ("tcr",), ("rho", "temp"), ("rho", "tcr"), ("temp", "tcr"), ("rho", "temp", "tcr")):
        given = {k: v for k, v in opt.items() if k not in omit}
        full = dict(given, **{k: dfl[k] for k in omit})
        if trace_res(w1_mm=w1, w2_mm=w2, l_mm=l, t_mm=t, **given) != trace_res(w1_mm=w1, w2_mm=w2, l_mm=l, t_mm=t, **full):
            res.v(("C20.defaults", "trace", "+".join(omit)), "%r: omitting %r differs from passing the documented defaults" % (case, omit))
        if plane_res(w=w1, l=l, t_mm=t, **given) != plane_res(w=w1, l=l, t_mm=t, **full):
            res.v(("C20.defaults", "plane", "+".join(omit)), "%r: omitting %r differs from passing the documented defaults" % (case, omit))
    # the same numbers handed over as other numeric TYPES (Python int, numpy signed / unsigned ints, float32): same results
    if float(te).is_integer():
        forms = [int(te), np.int64(int(te)), np.int16(int(te)), np.float32(te)]
        if 0 <= te < 256:
            forms += [np.uint8(int(te)), np.uint16(int(te)), np.uint64(int(te))]
        import warnings as _w
        for tv in forms:
            with _w.catch_warnings():
                _w.simplefilter("ignore")
                a_, b_ = float(tr(temp=tv)), float(pr(temp=tv))
            if not rel(a_, r, 1e-6) or not rel(b_, p, 1e-6):
                res.v(("C20.numeric-type", type(tv).__name__), "%r: temp=%r (%s) gives %r / %r, as float %r / %r" % (case, tv, type(tv).__name__, a_, b_, r, p))
    # arguments handed over as numpy values (a temperature sweep as an array): same numbers element by element, and the caller's array is left alone
    tarr = np.array([te, te + 30.0, te - 7.5])
    tkeep = tarr.copy()
    for nm, f, ref in (("trace", lambda t_: trace_res(w1_mm=w1, w2_mm=w2, l_mm=l, t_mm=t, rho=rho, temp=t_, tcr=tc), tr),
                       ("plane", lambda t_: plane_res(w=w1, l=l, t_mm=t, rho=rho, temp=t_, tcr=tc), pr)):
        try:
            got = np.asarray(f(tarr), dtype=float)
        except Exception as e:
            res.v(("C20.array-temperature-raises", nm, type(e).__name__), "%r" % (case,))
            continue
        want = [ref(temp=float(x)) for x in tkeep]
        if got.shape != (3,) or not all(rel(float(a_), b_, 1e-12) for a_, b_ in zip(got, want)):
            res.v(("C20.array-temperature", nm), "%r: %r vs %r" % (case, got.tolist(), want))
        if not np.array_equal(tarr, tkeep):
            res.v(("C20.argument-modified", nm), "%r: the temperature array passed in is now %r" % (case, tarr.tolist()))
            tarr = tkeep.copy()
    # no call may change what a later call with defaults returns (module-level state)
    if (trace_res(**SENT_T), plane_res(**SENT_P), RHO, TCR) != SENT0 or (__import__("sysloss.utils").utils.RHO, __import__("sysloss.utils").utils.TCR) != SENT0[2:]:
        res.v(("C20.state-leak",), "after evaluating %r a default call returns %r, at start-up %r" % (case, (trace_res(**SENT_T), plane_res(**SENT_P)), SENT0[:2]))
    res.nontrivial = 1 if (te != 20.0 and w1 != w2) else 0
    res.stats["evaluations"] += 58
    return res


def gen_cases(tier):
    W, Ls, T, R, TE, TC = grids(tier)
    for c in itertools.product(W, W, Ls, T, R, TE, TC):
        yield list(c)


def replay(doc):
    r = check_case(doc["case"])
    for sig, detail in r.viol:
        print("  ", sig, detail)
    return [s for s, _ in r.viol]


def main(tier):
    run = Run(PROP, tier, replay)
    run.map(check_case, gen_cases(tier), chunk=512, family="grid")
    return run.finish(
        rule="E4: full Cartesian product of value menus for (w1,w2,l,t,rho,temp,tcr); closed form evaluated in exact rational arithmetic on the same binary floats (1e-12), "
             "plus 10 relational laws per point (1e-11) and collinearity in temperature. non-trivial = temp != 20 and w1 != w2. "
             "The property quantifies over the reals: this is a lattice statement only.",
        assumptions=["a finite lattice of positive reals, not the reals"])

"""C05 -- PMux feeds from exactly the first live input, and is reported so.
Engine E1-mux: muxes with 1..k inputs x every input kind (own source / own source+converter / switch off a shared source)
x every live/dead cause per input (0 V source, phase-inactive source, phase-inactive regulator/switch upstream) x scalar or per-input rs
x rails on/off x attachment by name or by rail x the mux itself active in one phase only; two phases so that every case shows two live/dead patterns; plus every 2-/3-input system again after the intermediate element of one input was deleted with del_childs=False (the feeder takes its place in the priority list), and with every priority order different from the creation order after a save() / from_file() round trip."""
import itertools
from ..common import Run, Res, seed
from ..sysmodel import resolve, g
from ..muxsys import mux_spec, INPUT_OPTS, live_in_phase
from .. import phys

PROP = "C05"
WANT = ("C05", "C01", "C04")   # row oracles applied by this module (C01 / C02 re-use the edit histories with their own)


def spec_without(spec, name):
    """expected structure after del_comp(name, del_childs=False): its children hang under its parent, which takes its place in the mux input list."""
    import copy
    sp = copy.deepcopy(spec)
    gone = [c for c in sp["comps"] if c["n"] == name][0]
    par = gone["p"][0]
    sp["comps"] = [c for c in sp["comps"] if c["n"] != name]
    for c in sp["comps"]:
        if name in c["p"]:
            if par in c["p"]:
                c["p"] = [p for p in c["p"] if p != name]
            else:
                c["p"] = [par if p == name else p for p in c["p"]]
    return sp


def check_case(case):
    res = Res()
    inputs = [tuple(x) for x in case["inputs"]]
    spec = mux_spec(inputs, case["pal"], case["rs_list"], case["rails"], case["by_rail"], pol=case.get("pol", 1), mux_pc=case.get("mux_pc"), order=case.get("order"), ig_table=case.get("ig_table", False), below=case.get("below", "std"))
    if case.get("hole"):     # a component is added and deleted right before the mux is added: the mux node re-uses a freed index
        spec["hole_before"] = "M"
    if case.get("bounce"):   # the system phases are re-defined with other names and then as before: "inactive" inputs stay inactive
        spec["bounce"] = case["bounce"]
    if case.get("reload"):
        # the declared priority order (different from the creation order) must survive save() / from_file()
        from ..sysmodel import build, observe
        from ..common import quiet_call, workdir
        from sysloss.system import System
        import os
        s = build(spec)
        path = os.path.join(workdir("c05"), "m.json")
        s.save(path)
        if case.get("oldver"):   # the same file labelled as written by an older release (which knows the PMux): it must load into the same system
            import json
            doc_ = json.load(open(path))
            doc_["system"]["version"] = case["oldver"]
            json.dump(doc_, open(path, "w"))
        s2, _ = quiet_call(System.from_file, path)
        try:
            df, _ = quiet_call(s2.solve)
        except (RuntimeError, ValueError):
            res.classes.add("reloaded-unsolvable")
            return res
        obs = observe(df)
        d = resolve(spec)
        for ph in spec["phases"]:
            phys.check_phase(res, spec, obs, ph, 25.0, WANT, d)
        res.viol = [(("C05.after-reload",) + sig, det) for sig, det in res.viol]
        res.nontrivial = 1
        res.classes.add("reloaded")
        return res
    if case.get("delete") is not None:
        # edit history: the intermediate element of one input is deleted with del_childs=False; the declared priority order must survive
        from ..sysmodel import build, observe
        from ..common import quiet_call
        s = build(spec)
        quiet_call(s.solve)
        victim = case["delete"]
        if case.get("remux"):
            from ..muxsys import apply_remux
            spec = apply_remux(s, spec)
        elif case.get("handover"):
            # the mux was attached by RAIL names; afterwards the rail of its first input is renamed and the old rail name is given to
            # another component that does not feed the mux: the mux must keep its inputs
            import copy
            from ..sysmodel import make_comp
            spec = copy.deepcopy(spec)
            first = [c for c in spec["comps"] if c["n"] == victim][0]
            other = [c for c in spec["comps"] if c["n"] == "RB"][0]
            old = first["r"]
            s.change_comp(first["n"], comp=make_comp(first), rail="renamed_" + old)
            if first.get("pc") is not None:
                s.set_comp_phases(first["n"], copy.deepcopy(first["pc"]))
            s.change_comp("RB", comp=make_comp(other), rail=old)
            first["r"], other["r"] = "renamed_" + old, old
            for c in spec["comps"]:
                c["p"] = [first["n"] if q == old else q for q in c["p"]]
        elif case.get("rename"):
            # the endpoint of one input is replaced by an identical component with a NEW name: it must keep its slot in the priority list
            import copy
            from ..sysmodel import make_comp
            newn = "Z_" + victim
            vc = [c for c in spec["comps"] if c["n"] == victim][0]
            nc = dict(copy.deepcopy(vc), n=newn)
            s.change_comp(victim, comp=make_comp(nc), group=vc.get("g", ""), rail=vc.get("r", ""))
            if vc.get("pc") is not None:
                s.set_comp_phases(newn, copy.deepcopy(vc["pc"]))
            spec = copy.deepcopy(spec)
            for c in spec["comps"]:
                if c["n"] == victim:
                    c["n"] = newn
                c["p"] = [newn if q == victim else q for q in c["p"]]
        else:
            s.del_comp(victim, del_childs=False)
            spec = spec_without(spec, victim)
        try:
            df, _ = quiet_call(s.solve)
        except (RuntimeError, ValueError) as e:
            res.classes.add("edited-unsolvable")
            return res
        except Exception as e:
            res.v(("C05.after-edit-solve-raises", type(e).__name__), "%s" % e)
            return res
        obs = observe(df)
        d = resolve(spec)
        for ph in spec["phases"]:
            phys.check_phase(res, spec, obs, ph, 25.0, WANT, d)
        res.viol = [(("C05.after-delete",) + sig, det) for sig, det in res.viol]
        res.nontrivial = 1
        res.classes.add("edited")
        return res
    s, obs = phys.solve_and_check(res, spec, WANT)
    if obs is None:
        return res
    d = resolve(spec)
    for ph in spec["phases"]:
        rows = {n: obs[(ph, n)] for n in d}
        exp = next((j for j, inp in enumerate(inputs) if live_in_phase(inp, ph)), None)
        got = phys.mux_selected(d["M"], rows)
        # independent statement of "first live": from the case description, not from the table
        if exp != got:
            res.v(("C05.first-live",), "phase %s expected input %r, table shows live input %r" % (ph, exp, got))
        res.classes.add("selected:%s/%d" % (exp, len(inputs)))
        if exp is not None and any(live_in_phase(inp, ph) for inp in inputs[exp + 1:]):
            res.nontrivial = 1
            res.classes.add("unselected-live-present")
        # no other input sees any current from the mux: its Iout is exactly its own load
        for j, p in enumerate(d["M"]["parents"]):
            own = sum(g(rows[c], "Iin (A)") for c in d[p]["children"] if c != "M")
            io = g(rows[p], "Iout (A)")
            if j != exp and d[p]["k"] != "Source" and io != own:
                res.v(("C05.leak",), "phase %s unselected input %s Iout %r own children %r" % (ph, p, io, own))
            if j == exp and g(rows["M"], "Iin (A)") > 0 and d[p]["k"] != "Source" and not (io > own):
                res.v(("C05.not-fed",), "phase %s selected input %s Iout %r own %r" % (ph, p, io, own))
    return res


def gen_cases(tier):
    pal = seed() % 3
    ks = (1, 2, 3, 4)
    for k in ks:
        opts = INPUT_OPTS if (k <= 3 or tier != "quick") else [INPUT_OPTS[i] for i in (0, 1, 2, 6, 10)]
        for inputs in itertools.product(opts, repeat=k):
            forms = [(False, False, False), (True, True, True)] if tier == "quick" else \
                [(False, False, False), (True, False, False), (False, True, False), (True, True, True), (False, True, True)]
            for rs_list, rails, by_rail in forms:
                yield dict(inputs=[list(x) for x in inputs], pal=pal, rs_list=rs_list, rails=rails, by_rail=by_rail,
                           pol=-1 if (k == 2 and rs_list) else 1)
            if k <= 2 and any(st.startswith("inact") for _, st in inputs):
                for b in ("rename", "clear"):
                    yield dict(inputs=[list(x) for x in inputs], pal=pal, rs_list=False, rails=False, by_rail=False, pol=1, bounce=b)
            if k <= 3:
                yield dict(inputs=[list(x) for x in inputs], pal=pal, rs_list=(k == 2), rails=False, by_rail=False, pol=1, hole=True)
            if k <= 3:  # per-input resistances written with a negative sign
                yield dict(inputs=[list(x) for x in inputs], pal=pal, rs_list="neg", rails=False, by_rail=False, pol=1)
            if k <= 3:  # the mux with a 2-D ground-current table (looked up at the selected input's voltage)
                yield dict(inputs=[list(x) for x in inputs], pal=pal, rs_list=False, rails=False, by_rail=False, pol=1, ig_table=True)
            if k <= 3:  # the mux itself sleeping in one phase (draws iis from the SELECTED input) / active in the other
                for mpc in (["a"], ["b"]):
                    yield dict(inputs=[list(x) for x in inputs], pal=pal, rs_list=True, rails=False, by_rail=False, pol=1, mux_pc=mpc)
    yield from gen_edits(tier, pal)


def gen_edits(tier, pal):
    for k in (2, 3):
        for inputs in itertools.product(INPUT_OPTS if k == 2 else INPUT_OPTS[::2], repeat=k):
            for j, (t, st) in enumerate(inputs, 1):
                if t in ("SC", "SH", "SL"):
                    victim = {"SC": "C%d", "SH": "P%d", "SL": "G%d"}[t] % j
                    yield dict(inputs=[list(x) for x in inputs], pal=pal, rs_list=True, rails=False, by_rail=False, pol=1, delete=victim)
            for j, (t, st) in enumerate(inputs, 1):   # rename the endpoint of input j
                endp = {"S": "S%d", "SC": "C%d", "SH": "P%d", "SL": "G%d"}[t] % j
                yield dict(inputs=[list(x) for x in inputs], pal=pal, rs_list=True, rails=False, by_rail=False, pol=1, delete=endp, rename=True)
            yield dict(inputs=[list(x) for x in inputs], pal=pal, rs_list=False, rails=False, by_rail=False, pol=1, delete="M", remux=True)
            yield dict(inputs=[list(x) for x in inputs], pal=pal, rs_list=False, rails=False, by_rail=False, pol=1, delete="M", remux=True, below="none")  # childless mux: the re-added node gets the SAME index
            t0 = inputs[0][0]
            end0 = {"S": "S1", "SC": "C1", "SH": "P1", "SL": "G1"}[t0]
            if t0 != "SL":
                yield dict(inputs=[list(x) for x in inputs], pal=pal, rs_list=True, rails=True, by_rail=True, pol=1, delete=end0, handover=True)
            for order in itertools.permutations(range(k)):
                if list(order) != list(range(k)):
                    yield dict(inputs=[list(x) for x in inputs], pal=pal, rs_list=True, rails=False, by_rail=False, pol=1, order=list(order), reload=True)
                    if k == 2:
                        for ov in ("1.8.0", "1.8.1", "1.9.0"):
                            yield dict(inputs=[list(x) for x in inputs], pal=pal, rs_list=True, rails=False, by_rail=False, pol=1, order=list(order), reload=True, oldver=ov)
            if k == 2:   # identity order too
                yield dict(inputs=[list(x) for x in inputs], pal=pal, rs_list=True, rails=False, by_rail=False, pol=1, order=None, reload=True, oldver="1.8.0")


def replay(doc):
    r = check_case(doc["case"])
    for sig, detail in r.viol:
        print("  ", sig, detail)
    return [s for s, _ in r.viol]


def main(tier):
    run = Run(PROP, tier, replay)
    run.map(check_case, gen_cases(tier), chunk=16, family="mux")
    kmax = 4
    for k in range(1, kmax + 1):
        for j in list(range(k)) + [None]:
            run.require("selected:%s/%d" % (j, k) in run.classes, "selected index %s of %d never observed" % (j, k))
    return run.finish(
        rule="E1-mux: all k-tuples (k<=3; k=4 over 5 of the options in quick, all 11 in thorough) over 11 input options (own source | own source+converter | switch off a shared source | own source+LinReg) x "
             "(live | 0 V | phase-inactive source | phase-inactive regulator | regulator starved below its drop-out: 0 V but not off) x rs scalar/list x rails x by-rail attachment, two phases each; "
             "oracle: selected = first live (from the case description), Vin/Vout/Iin law with rs[selected], unselected inputs carry only their own load, "
             "Parent/Rail-in/Domain name the selected input, dead subtree when none live. non-trivial = a live input exists after the selected one.",
        assumptions=["inputs up to depth 1 above the mux", "one palette per run (VERIF_SEED)"])

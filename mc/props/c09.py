"""C09 -- warnings appear exactly when an applicable limit is exceeded.
E1-limit: for every component of every enumerated tree, every limit key (applicable or not) x every placement of [min,max] relative to the
reported quantity (inside / exactly on min / exactly on max / just outside each side) x sign form of the limits; values read from a first
solve() of the same system.  Oracle: token set from the reported values + the documented applicability table; Subsystem / total roll-up."""
import itertools, copy, math
from ..common import Run, Res, seed, quiet_call
from ..sysmodel import (Trees, SIG_MID, spec_from_forest, with_phases, PH2, build, observe, resolve, g, has, LOADS, pc_options,
                        PHASE_LIST_KINDS)
from .. import phys
from .c01 import two_source_spec

PROP = "C09"
KEYS = ["vi", "vo", "vd", "ii", "io", "pi", "po", "pl", "tr", "tp"]
APPL = {"Source": ["io", "po", "pl"], "PLoad": ["vi", "ii", "tr", "tp"], "ILoad": ["vi", "pi", "tr", "tp"],
        "RLoad": ["vi", "ii", "pi", "tr", "tp"], "Converter": ["vi", "vo", "ii", "io", "pi", "po", "pl", "tr", "tp"]}
DEFAULT = {k: [0.0, 1.0e6] for k in KEYS}
DEFAULT["tp"] = [-1.0e6, 1.0e6]
PLACE = ["inside", "on-min", "on-max", "below-min", "above-max", "reversed", "min-only"]   # min-only: only the lower bound moved, the upper one left at the documented default


def quantities(row, ta):
    vi, vo = g(row, "Vin (V)"), g(row, "Vout (V)")
    P, L = g(row, "Power (W)"), g(row, "Loss (W)")
    tr = g(row, "Temp. rise (°C)")
    tp = g(row, "Peak temp. (°C)") if has(row, "Peak temp. (°C)") else ta + tr
    return {"vi": vi, "vo": vo, "vd": abs(vi) - abs(vo), "ii": g(row, "Iin (A)"), "io": g(row, "Iout (A)"), "pi": P, "po": P - L,
            "pl": L, "tr": tr, "tp": tp}


def outside(key, x, lim):
    if key == "tp":
        return x > lim[1] or x < lim[0]
    return abs(x) > abs(lim[1]) or abs(x) < abs(lim[0])


def expected_tokens(rec, q, limits, ph):
    k = rec["k"]
    if k not in ("Source", "RLoss", "VLoss") and rec.get("pc") and ph not in rec["pc"]:
        return set()
    out = set()
    for key in APPL.get(k, KEYS):
        lim = (limits or {}).get(key, DEFAULT[key])
        if outside(key, q[key], lim):
            out.add(key)
    return out


def place(key, x, how, neg):
    """[min,max] placed relative to the reported quantity x; None when the placement is impossible."""
    if how == "min-only":
        if key == "tp":
            return [x + 1e-6 * max(1.0, abs(x)), 1.0e6]
        return None if x == 0 else [-(abs(x) * (1 + 1e-6)), 1.0e6]   # the minimum spelled with a negative sign
    if key == "tp":
        w = max(1.0, abs(x))
        return {"inside": [x - w, x + w], "on-min": [x, x + w], "on-max": [x - w, x], "below-min": [x + 1e-6 * w, x + w],
                "above-max": [x - w, x - 1e-6 * w], "reversed": [x + w, x - w]}[how]
    a = abs(x)
    if a == 0.0:
        lim = {"inside": [0.0, 1.0], "on-min": [0.0, 1.0], "on-max": [0.0, 0.0], "below-min": [1e-9, 1.0], "above-max": None, "reversed": [1.0, 0.0]}[how]
    else:
        lim = {"inside": [0.5 * a, 2 * a], "on-min": [a, 2 * a], "on-max": [0.5 * a, a], "below-min": [a * (1 + 1e-6), 2 * a],
               "above-max": [0.5 * a, a * (1 - 1e-6)], "reversed": [2 * a, 0.5 * a]}[how]   # reversed: [max, min] as given is compared as given
    if lim is None:
        return None
    return [-lim[0], -lim[1]] if neg else lim


def rollup(res, spec, obs, d, ph, sub):
    rows = {n: obs[(ph, n)] for n in d}
    anyw = any(str(rows[n].get("Warnings", "")) != "" for n in d)
    tot = obs.get((ph, "System total"))
    if tot is not None and ((tot.get("Warnings") == "Yes") != anyw):
        res.v(("C09.total-rollup",), "phase %r total says %r, any component warns: %r" % (ph, tot.get("Warnings"), anyw))
    srcs = [n for n in d if d[n]["k"] == "Source"]
    if len(srcs) > 1:
        for sname in srcs:
            members = [n for n in d if d[n].get("_dom") == sname]
            w = any(str(rows[n].get("Warnings", "")) != "" for n in members)
            srow = obs.get((ph, "Subsystem " + sname))
            if srow is not None and ((srow.get("Warnings") == "Yes") != w):
                res.v(("C09.subsystem-rollup",), "phase %r %s says %r, members warn: %r" % (ph, sname, srow.get("Warnings"), w))
            res.stats["rollups"] += 1


def check_replace(res, case, spec, ta):
    """analysis, then the phase-configured component is REPLACED (change_comp, same name, now with a limit; its phase configuration is thereby
    reset, or set again afterwards), then the warnings must be those of the system as it now is."""
    from ..sysmodel import make_comp
    who = case["who"]
    phases = list(spec["phases"])
    for reconf in (False, True):
        sp2 = copy.deepcopy(spec)
        c2 = [c for c in sp2["comps"] if c["n"] == who][0]
        if not reconf:
            c2["pc"] = None
        try:
            df0, _ = quiet_call(build(sp2).solve, ta=ta)
        except (RuntimeError, ValueError):
            res.classes.add("unsolvable")
            continue
        obs0 = observe(df0)
        d = resolve(sp2)
        q0 = {(ph, n): quantities(obs0[(ph, n)], ta) for ph in phases for n in d}
        for key in APPL.get(d[who]["k"], KEYS):
            for how in ("inside", "above-max", "below-min"):
                lim_ = place(key, q0[(phases[-1], who)][key], how, False)   # placed relative to the phase the old configuration left out
                if lim_ is None:
                    continue
                lim = {key: lim_}
                s = build(spec)
                quiet_call(s.solve, ta=ta)
                c2["lim"] = lim
                s.change_comp(who, comp=make_comp(c2), group=c2.get("g", ""), rail=c2.get("r", ""))
                if reconf:
                    s.set_comp_phases(who, copy.deepcopy(c2["pc"]))
                df, _ = quiet_call(s.solve, ta=ta)
                obs = observe(df)
                res.stats["evaluations"] += 1
                res.stats["transitions"] += 3
                for ph in phases:
                    for m in d:
                        exp = expected_tokens(dict(d[m]), q0[(ph, m)], lim if m == who else None, ph)
                        got = set(str(obs[(ph, m)].get("Warnings", "")).split())
                        if got != exp:
                            res.v(("C09.tokens-after-replace", d[m]["k"], key if m == who else "-", how if m == who else "-", "reconfigured" if reconf else "reset"),
                                  "phase %r %s limits %r: Warnings %r expected %r" % (ph, m, lim if m == who else None, sorted(got), sorted(exp)))
                        if m == who and exp:
                            res.stats["flips"] += 1
                    rollup(res, sp2, obs, d, ph, None)
    res.nontrivial = 1 if res.stats["flips"] else 0
    res.classes.add("replaced")
    return res


def check_case(case):
    res = Res()
    ta = case["ta"]
    if case["fam"] == "two":
        spec = two_source_spec(case["f"], case["f2"], case["pal"], case["pol"], 0.0 if case["pol"] < 0 else 0.37)
    else:
        spec = spec_from_forest(case["f"], case["pal"], case["pol"], 0.0 if case["pol"] < 0 else 0.37)
    if case.get("who"):
        spec = with_phases(spec, PH2, {case["who"]: case["pc"]})
        if case.get("nophase"):  # a configured component in a system WITHOUT system phases: the unnamed phase is not in its configuration
            spec["phases"] = None
    if case["fam"] == "toml":
        # one component comes from a .toml file with a [limits] table; every OTHER component relies on the defaults and must not start warning
        import os, toml
        from ..common import workdir
        from ..sysmodel import KINDS
        from sysloss.system import System
        from sysloss.components import Source, ILoad, RLoss
        kind, section, P = case["kind"], case["section"], case["P"]
        pth = os.path.join(workdir("c09"), "c.toml")
        open(pth, "w").write(toml.dumps({section: P, "limits": case["L"]}))
        comp = KINDS[kind].from_file("X", fname=pth)
        s = System("toml", Source("S", vo=5.0, rs=0.1))
        s.add_comp("S", comp=comp)
        if kind not in LOADS:
            s.add_comp("X", comp=ILoad("L", ii=0.05))
        s.add_comp("S", comp=RLoss("R2", rs=1.0))
        s.add_comp("R2", comp=ILoad("L2", ii=0.07))
        s2 = System("other", Source("S", vo=5.0))      # a second system, built afterwards, without any limits at all
        s2.add_comp("S", comp=RLoss("R", rs=2.0))
        s2.add_comp("R", comp=ILoad("L", ii=0.09))
        for sysx, names in ((s, ("S", "R2", "L2", "L")), (s2, ("S", "R", "L"))):
            obs = observe(quiet_call(sysx.solve)[0])
            for nm in names:
                if ("", nm) in obs and str(obs[("", nm)].get("Warnings", "")) != "" and not (sysx is s and nm == "L" and kind in LOADS):
                    res.v(("C09.default-limits-warn", "after-toml-limits", kind), "%s warns %r although it has no limits of its own (the file limits of X were %r)" % (nm, obs[("", nm)]["Warnings"], case["L"]))
        xr = observe(quiet_call(s.solve)[0])[("", "X")]
        exp = expected_tokens(dict(k=kind, pc=None), quantities(xr, 25.0), case["L"], "")
        if set(str(xr.get("Warnings", "")).split()) != exp:
            res.v(("C09.tokens", kind, "toml-limits"), "X loaded with limits %r warns %r, expected %r" % (case["L"], xr.get("Warnings"), sorted(exp)))
        res.stats["flips"] += 1 if exp else 0
        res.nontrivial = 1
        return res
    if case["fam"] == "huge":   # quantities above the documented defaults (1e6) with only ONE other key supplied
        from ..sysmodel import KINDS
        comps = [dict(n="S", k="Source", a=dict(vo=3.0e6, rs=0.0), p=[], g="", r=""),
                 dict(n="X", k=case["kind"], a=case["args"], p=["S"], g="", r="", lim={"ii": [0.0, 100.0]}),
                 dict(n="L", k="RLoad", a=dict(rs=1.0e6), p=["X"], g="", r="")]
        spec = dict(name="huge", comps=comps, phases=None)
        s0 = build(spec)
        df0, _ = quiet_call(s0.solve)
        obs0 = observe(df0)
        d = resolve(spec)
        for n in d:
            exp = expected_tokens(dict(d[n]), quantities(obs0[("", n)], 25.0), d[n].get("lim"), "")
            got = set(str(obs0[("", n)].get("Warnings", "")).split())
            if got != exp:
                res.v(("C09.default-limits", d[n]["k"]), "%s: Warnings %r, expected from the documented defaults %r" % (n, sorted(got), sorted(exp)))
            if exp:
                res.stats["flips"] += 1
        res.nontrivial = 1
        return res
    if case.get("replace"):
        return check_replace(res, case, spec, ta)
    phases = list(spec["phases"]) if spec.get("phases") else [""]
    s0 = build(spec)
    try:
        df0, _ = quiet_call(s0.solve, ta=ta)
    except (RuntimeError, ValueError):
        res.classes.add("unsolvable")
        return res
    obs0 = observe(df0)
    d = resolve(spec)
    for ph in phases:  # fills _dom
        phys.check_phase(Res(), spec, obs0, ph, ta, ("C07",), d)
    for ph in phases:
        for n in d:
            if str(obs0[(ph, n)].get("Warnings", "")) != "":
                res.v(("C09.default-limits-warn", d[n]["k"]), "%s warns %r without limits" % (n, obs0[(ph, n)]["Warnings"]))
    q0 = {(ph, n): quantities(obs0[(ph, n)], ta) for ph in phases for n in d}
    targets = [case["target"]] if case.get("target") else list(d)
    if case.get("who"):  # also every component BELOW the configured one: unpowered while it sleeps, but its own limits still apply
        below, grow = [], True
        while grow:
            grow = False
            for n in d:
                if n not in below and n != case["who"] and any(p == case["who"] or p in below for p in d[n]["parents"]):
                    below.append(n)
                    grow = True
        targets = targets + below
    pairs = case.get("pairs", False)
    for n in targets:
        keysets = [(k,) for k in KEYS] if not pairs else list(itertools.combinations(KEYS, 2))
        for ks in keysets:
            for hows in itertools.product(PLACE, repeat=len(ks)) if not pairs else [(h, h2) for h in ("on-max", "above-max") for h2 in ("on-min", "below-min")]:
                for neg in ((False, True) if (not pairs and hows[0] in ("inside", "below-min", "above-max")) else (False,)):
                    refph = phases[0]
                    lim = {}
                    for k, how in zip(ks, hows):
                        l = place(k, q0[(refph, n)][k], how, neg and k != "tp")
                        if l is not None:
                            lim[k] = l
                    if not lim:
                        continue
                    sp = copy.deepcopy(spec)
                    for c in sp["comps"]:
                        if c["n"] == n:
                            c["lim"] = lim
                    s = build(sp)
                    df, _ = quiet_call(s.solve, ta=ta)
                    obs = observe(df)
                    res.stats["evaluations"] += 1
                    if hows[0] in ("below-min", "above-max", "on-min", "min-only") and not neg and (any(c["k"] == "PMux" for c in sp["comps"]) or len(sp["comps"]) <= 2):
                        # the warnings survive a save / load round trip (each component is reloaded with ITS limits)
                        import os
                        from ..common import workdir
                        from sysloss.system import System
                        pth = os.path.join(workdir("c09"), "w.json")
                        s.save(pth)
                        s2, _ = quiet_call(System.from_file, pth)
                        o2 = observe(quiet_call(s2.solve, ta=ta)[0])
                        for ph in phases:
                            for m in d:
                                if str(o2[(ph, m)].get("Warnings", "")) != str(obs[(ph, m)].get("Warnings", "")):
                                    res.v(("C09.tokens-after-reload", d[m]["k"]), "phase %r %s: %r after save/from_file, %r before" % (ph, m, o2[(ph, m)].get("Warnings"), obs[(ph, m)].get("Warnings")))
                    res.stats["transitions"] += 1
                    for ph in phases:
                        for m in d:
                            rec = dict(d[m])
                            exp = expected_tokens(rec, q0[(ph, m)], lim if m == n else None, ph)
                            got = set(str(obs[(ph, m)].get("Warnings", "")).split())
                            if got != exp:
                                appl = [("appl" if k in APPL.get(d[m]["k"], KEYS) else "non-appl") for k in ks] if m == n else ["other-row"]
                                res.v(("C09.tokens", d[m]["k"], "+".join(ks) if m == n else "-", "+".join(hows) if m == n else "-", *appl),
                                      "phase %r %s limits %r: Warnings %r expected %r (quantities %r)" % (ph, m, lim if m == n else None, sorted(got), sorted(exp), {k: q0[(ph, m)][k] for k in ks}))
                            if m == n and exp:
                                res.stats["flips"] += 1
                        rollup(res, sp, obs, d, ph, None)
    res.nontrivial = 1 if res.stats["flips"] else 0
    return res


def gen_cases(tier):
    pal = seed() % 3
    mid = Trees(*SIG_MID)
    for n in ((1, 2) if tier == "quick" else (1, 2, 3)):
        for f in mid.iter_forests(n):
            for pol, ta in ((1, 25.0), (-1, -40.0)) if n == 1 or tier != "quick" else ((1, -40.0),):
                yield dict(fam="one", f=f, pal=pal, pol=pol, ta=ta)
            if n == 1 or tier != "quick":
                yield dict(fam="one", f=f, pal=pal, pol=1, ta=25.0, pairs=True)
            # phases: the target is active / loaded in phase a only
            spec = spec_from_forest(f, pal, 1, 0.37)
            for c in spec["comps"]:
                if c["k"] in PHASE_LIST_KINDS or c["k"] in LOADS:
                    if n <= 1 or tier != "quick" or c is spec["comps"][-1]:
                        yield dict(fam="one", f=f, pal=pal, pol=1, ta=25.0, who=c["n"], pc=pc_options(c, PH2, False)[1], target=c["n"])
    for n in (1, 2):   # replaced after an analysis
        for f in mid.iter_forests(n):
            spec = spec_from_forest(f, pal, 1, 0.37)
            for c in spec["comps"][1:]:
                if (c["k"] in PHASE_LIST_KINDS or c["k"] in LOADS) and (n == 1 or c["p"] != ["S"]):
                    yield dict(fam="one", f=f, pal=pal, pol=1, ta=25.0, who=c["n"], pc=pc_options(c, PH2, False)[1], replace=True)
    for kind, section, P in (("RLoss", "rloss", dict(rs=0.7)), ("Converter", "converter", dict(vo=3.3, eff=0.85)), ("PSwitch", "pswitch", dict(rs=0.2)),
                             ("ILoad", "iload", dict(ii=0.1)), ("VLoss", "vloss", dict(vdrop=0.3)), ("Rectifier", "rectifier", dict(vdrop=0.25))):
        for L in ({"io": [0.0, 1e-3]}, {"vo": [0.0, 0.5], "vi": [0.0, 1.0]}, {"ii": [0.0, 1e-3], "tp": [-10.0, 20.0]}, {"pl": [0.0, 1e-9], "pi": [0.0, 1e-6]}):
            yield dict(fam="toml", f=[], pal=pal, pol=1, ta=25.0, kind=kind, section=section, P=P, L=L)
    for kind, args in (("RLoss", dict(rs=0.001)), ("VLoss", dict(vdrop=1.0)), ("LinReg", dict(vo=2.9e6, vdrop=1.0)), ("PSwitch", dict(rs=0.001)),
                       ("PMux", dict(rs=0.001)), ("Rectifier", dict(vdrop=1.0)), ("Converter", dict(vo=2.0e6, eff=0.9))):
        yield dict(fam="huge", f=[], pal=pal, pol=1, ta=25.0, kind=kind, args=args)
    for n in (1, 2):
        for f in mid.iter_forests(n):
            spec = spec_from_forest(f, pal, 1, 0.37)
            for c in spec["comps"][1:]:
                if c["k"] in PHASE_LIST_KINDS or c["k"] in LOADS:
                    if n == 1 or c is spec["comps"][-1]:
                        yield dict(fam="one", f=f, pal=pal, pol=1, ta=25.0, who=c["n"], pc=pc_options(c, PH2, False)[1], target=c["n"], nophase=True)
    for f1 in mid.iter_forests(1):
        for f2 in mid.iter_forests(1):
            if str(f1).count("MX") + str(f2).count("MX") <= 1:
                yield dict(fam="two", f=f1, f2=f2, pal=pal, pol=1, ta=25.0)


def replay(doc):
    r = check_case(doc["case"])
    for sig, detail in r.viol[:20]:
        print("  ", sig, detail)
    return [s for s, _ in r.viol]


def main(tier):
    run = Run(PROP, tier, replay)
    run.map(check_case, gen_cases(tier), chunk=2, family="limits")
    run.require(run.stats["flips"] > 1000 and run.stats["rollups"] > 100, "too few flipping placements / subsystem roll-ups")
    return run.finish(
        rule="E1-limit: every tree of the mid alphabet n<=2 (3 thorough), both polarities, ta in {25,-40}; for every component x each of the 10 limit keys x 6 placements of "
             "[min,max] relative to the value reported by a first solve() (inside, exactly on min, exactly on max, just below min, just above max, [max,min] reversed) x positive/negative limit form; "
             "pairs of keys; a phase family in which the target is configured for one phase only; two-source systems for the Subsystem roll-up. "
             "evaluations = solve() calls with a limit placed. non-trivial = a case in which some placement made the expected token set non-empty.",
        assumptions=["limits compared by magnitude on both value and [min,max] (tp signed)", "a quantity of exactly 0 cannot be pushed above a magnitude maximum (placement skipped)",
                     "Rectifier/RLoss/VLoss carry no phase configuration"])

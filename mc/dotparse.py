"""Tokenizer for the subset of DOT that pydot emits for sysLoss diagrams (format 'raw')."""
import re

_ID = r'"(?:[^"\\]|\\.)*"|[^\s\[\];{}]+'


def unq(x):
    x = x.strip()
    if len(x) >= 2 and x[0] == '"' and x[-1] == '"':
        return x[1:-1].replace('\\"', '"')
    return x


def attrs(text):
    out, i, n = {}, 0, len(text)
    while i < n:
        m = re.match(r"\s*,?\s*([A-Za-z_][A-Za-z_0-9]*)\s*=\s*", text[i:])
        if not m:
            break
        i += m.end()
        if i < n and text[i] == '"':
            j = i + 1
            while j < n and not (text[j] == '"' and text[j - 1] != "\\"):
                j += 1
            val = text[i + 1:j].replace('\\"', '"')
            i = j + 1
        else:
            m2 = re.match(r"[^,\]]*", text[i:])
            val = m2.group(0).strip()
            i += m2.end()
        out[m.group(1)] = val
    return out


def parse(text):
    """-> dict(graph=attrs, nodes={id: (cluster|None, attrs)}, edges=[(a,b,attrs)], clusters={name: attrs}, errors=[...])"""
    g = dict(graph={}, nodes={}, edges=[], clusters={}, errors=[], dup_nodes=[])
    cur = None
    lines = text.strip().splitlines()
    if not lines or not lines[0].startswith("digraph"):
        g["errors"].append("no digraph header")
        return g
    for ln in lines[1:]:
        ln = ln.strip()
        if not ln:
            continue
        if ln == "}":
            if cur is not None:
                cur = None
            continue
        m = re.match(r"^subgraph\s+(%s)\s*\{$" % _ID, ln)
        if m:
            cur = unq(m.group(1))
            if cur in g["clusters"]:
                g["errors"].append("duplicate cluster %s" % cur)
            g["clusters"][cur] = {}
            continue
        m = re.match(r"^(%s)\s*->\s*(%s)\s*\[(.*)\];$" % (_ID, _ID), ln)
        if m:
            g["edges"].append((unq(m.group(1)), unq(m.group(2)), attrs(m.group(3))))
            continue
        m = re.match(r"^(%s)\s*->\s*(%s)\s*;$" % (_ID, _ID), ln)   # an edge without an attribute list
        if m:
            g["edges"].append((unq(m.group(1)), unq(m.group(2)), {}))
            continue
        m = re.match(r"^(%s)\s*\[(.*)\];$" % _ID, ln)
        if m:
            nid = unq(m.group(1))
            if nid in g["nodes"]:
                g["dup_nodes"].append(nid)
            g["nodes"][nid] = (cur, attrs(m.group(2)))
            continue
        m = re.match(r"^(%s)\s*;$" % _ID, ln)   # a node without an attribute list
        if m and "=" not in ln:
            nid = unq(m.group(1))
            if nid in g["nodes"]:
                g["dup_nodes"].append(nid)
            g["nodes"][nid] = (cur, {})
            continue
        m = re.match(r"^([A-Za-z_][A-Za-z_0-9]*)\s*=\s*(.*);$", ln)
        if m:
            (g["clusters"][cur] if cur is not None else g["graph"])[m.group(1)] = unq(m.group(2))
            continue
        g["errors"].append("unparsed line: %s" % ln[:80])
    return g

"""Row-level oracles on a solve() table: C01 (laws + neighbours), C02 (energy book-keeping),
C04 (dead rails), used by several property modules.  All are *fixed-point checkers*: the returned Vin/Iout of a
row are plugged into the documented law and compared with the returned Vout/Iin."""
import math
from .common import close
from .sysmodel import resolve, g, has, law, branch_tags, LOADS, sgn, active, TYPE_NAME


def src_tags(rec):
    a = rec["a"]
    return ["vo<0" if a["vo"] < 0 else ("vo=0" if a["vo"] == 0 else "vo>0"), "rs>0" if abs(a.get("rs", 0)) > 0 else "rs=0"]


def mux_selected(rec, rows):
    """index of the first live input of a multi-input mux (None if none live)."""
    for i, p in enumerate(rec["parents"]):
        if abs(g(rows[p], "Vout (V)")) != 0.0:
            return i
    return None


def expected_domain(d, rows, name):
    """Source that actually powers `name` (through the selected mux input); None below a mux with no live input."""
    n = name
    while True:
        rec = d[n]
        if rec["k"] == "Source":
            return n
        if len(rec["parents"]) > 1:
            s = mux_selected(rec, rows)
            if s is None:
                return None
            n = rec["parents"][s]
        else:
            n = rec["parents"][0]


def check_phase(res, spec, obs, ph, ta=25.0, want=("C01", "C02", "C04"), d=None, law_rt=1e-4, law_at=5e-8):
    """Evaluate the row oracles for phase ph ('' without phases).  Appends violations to res.
    Returns the per-phase dict name->row, or None when rows are missing."""
    d = d or resolve(spec)
    rows = {}
    for name in d:
        if (ph, name) not in obs:
            res.v(("C16.missing-row", d[name]["k"]), "no row for %s in phase %r" % (name, ph))
            return None
        rows[name] = obs[(ph, name)]
    psrc = pload = ploss = 0.0
    vmax = 1.0
    any_neg_rs_source = False
    for name, rec in d.items():
        k = rec["k"]
        r = rows[name]
        vin, vout, iin, iout = g(r, "Vin (V)"), g(r, "Vout (V)"), g(r, "Iin (A)"), g(r, "Iout (A)")
        P, L, E = g(r, "Power (W)"), g(r, "Loss (W)"), g(r, "Efficiency (%)")
        tags = src_tags(rec) if k == "Source" else []
        act = active(rec, ph)
        if k == "Source" and rec["a"]["vo"] < 0 and abs(rec["a"].get("rs", 0)) > 0:
            any_neg_rs_source = True
        if not all(map(math.isfinite, (vin, vout, iin, iout, P, L, E))):
            res.v(("C03.nonfinite", k), "%s: %r" % (name, (vin, vout, iin, iout, P, L, E)))
            continue
        if r.get("Type") != TYPE_NAME[k]:
            res.v(("C01.type", k), "%s reported as %r" % (name, r.get("Type")))
        # ---- neighbours --------------------------------------------------------------------
        sel = 0
        if k == "Source":
            exp_vin = rec["a"]["vo"] if (act and rec["a"]["vo"] != 0) else 0.0
            if "C01" in want and not close(vin, exp_vin, 1e-9, 1e-12):
                res.v(("C01.vin-root", k, *tags), "%s Vin %r expected %r" % (name, vin, exp_vin))
        else:
            if len(rec["parents"]) > 1:
                sel = mux_selected(rec, rows)
                exp_vin = 0.0 if sel is None else g(rows[rec["parents"][sel]], "Vout (V)")
                sel = sel or 0
            else:
                exp_vin = g(rows[rec["parents"][0]], "Vout (V)")
            if "C01" in want and vin != exp_vin:
                res.v(("C01.vin", k), "%s Vin %r but feeder outputs %r" % (name, vin, exp_vin))
        # ---- reported feeder (C05/C08) and domain (C05/C07) -------------------------------
        if ("C05" in want or "C07" in want) and k != "Source":
            live_sel = not (len(rec["parents"]) > 1 and mux_selected(rec, rows) is None)
            fname = rec["parents"][sel]
            if "C05" in want and live_sel:
                if "Parent" in r:
                    if r["Parent"] != fname:
                        res.v(("C05.parent", k, "multi-input" if len(rec["parents"]) > 1 else "single"), "%s Parent %r expected %r" % (name, r["Parent"], fname))
                elif "Rail in" in r:
                    if r["Rail in"] != d[fname].get("r", ""):
                        res.v(("C05.rail-in", k, "multi-input" if len(rec["parents"]) > 1 else "single"), "%s Rail in %r expected %r" % (name, r["Rail in"], d[fname].get("r", "")))
            dom = expected_domain(d, rows, name)
            rec["_dom"] = dom
            if "Domain" in r and dom is not None and r["Domain"] != dom:
                res.v(("C07.domain", k), "%s Domain %r expected %r" % (name, r["Domain"], dom))
        elif k == "Source":
            rec["_dom"] = name
            if ("C05" in want or "C07" in want) and "Domain" in r and r["Domain"] != name:
                res.v(("C07.domain", k), "%s Domain %r" % (name, r["Domain"]))
        cs = 0.0
        for c in rec["children"]:
            cr = d[c]
            if len(cr["parents"]) > 1:
                s2 = mux_selected(cr, rows)
                if s2 is None or cr["parents"][s2] != name:
                    continue
            cs += g(rows[c], "Iin (A)")
        # a non-source Iout is computed from the same current vector as the children's Iin (exact);
        # a source reports its own entry of the (previous) iterate: solver tolerance applies
        if "C01" in want and not (close(iout, cs, law_rt, law_at) if k == "Source" else close(iout, cs, 1e-12, 1e-18)):
            res.v(("C01.iout", k, *tags), "%s Iout %r but children draw %r" % (name, iout, cs))
        # ---- transfer law ------------------------------------------------------------------
        if "C01" in want:
            ev, ei = law(rec, vin, iout, ph, sel)
            if not close(vout, ev, law_rt, law_at):
                res.v(("C01.law-v", k, *tags, *(["inactive"] if not act else [])), "%s Vout %r law %r (Vin %r Iout %r)" % (name, vout, ev, vin, iout))
            if not close(iin, ei, law_rt, law_at):
                res.v(("C01.law-i", k, *tags, *(["inactive"] if not act else [])), "%s Iin %r law %r (Vin %r Iout %r)" % (name, iin, ei, vin, iout))
            for t in branch_tags(rec, vin, iout, ph):
                res.classes.add("%s:%s" % (k, t))
                if t not in ("dead",):
                    res.stats["nontrivial_rows"] += 1
        # ---- C04 dead / sleeping -----------------------------------------------------------
        if "C04" in want and k != "Source":
            if vin == 0.0:
                if any(x != 0.0 for x in (vout, iin, iout, P, L)):
                    res.v(("C04.dead-nonzero", k), "%s on a dead rail: Vout %r Iin %r Iout %r P %r L %r" % (name, vout, iin, iout, P, L))
                res.stats["dead_rows"] += 1
            elif not act and k in ("Converter", "LinReg", "PSwitch", "PMux"):
                iis = abs(rec["a"].get("iis", 0.0))
                if not (iin == iis and vout == 0.0 and close(P, iis * abs(vin), 1e-12, 0) and close(L, iis * abs(vin), 1e-12, 0)):
                    res.v(("C04.sleep", k), "%s inactive: Iin %r (iis %r) Vout %r P %r L %r Vin %r" % (name, iin, iis, vout, P, L, vin))
                res.stats["sleep_rows"] += 1
            else:
                res.stats["live_rows"] += 1
        if "C04" in want and k == "Source" and (not act or rec["a"]["vo"] == 0):
            if any(x != 0.0 for x in (vout, iin, iout, P, L)):
                res.v(("C04.dead-source", k), "%s: %r" % (name, (vout, iin, iout, P, L)))
            # nothing is booked on a dead supply: its Subsystem row is all zero and no row that draws anything carries its Domain
            sr = obs.get((ph, "Subsystem " + name))
            if sr is not None and any(g(sr, c_) != 0.0 for c_ in ("Iout (A)", "Power (W)", "Loss (W)")):
                res.v(("C04.dead-subsystem-row",), "phase %r Subsystem %s: Iout %r P %r L %r" % (ph, name, g(sr, "Iout (A)"), g(sr, "Power (W)"), g(sr, "Loss (W)")))
            for n2 in d:
                r2 = rows[n2]
                if n2 != name and r2.get("Domain") == name and any(g(r2, c_) != 0.0 for c_ in ("Iin (A)", "Power (W)", "Loss (W)")):
                    res.v(("C04.live-row-in-dead-domain", d[n2]["k"]), "phase %r %s draws %r A but is attributed to the dead source %s" % (ph, n2, g(r2, "Iin (A)"), name))
                    break
        # ---- C02 energy book-keeping -------------------------------------------------------
        if "C02" in want:
            if k not in LOADS:
                # solver tolerance: currents are converged to 1e-8 A absolute -> powers to ~1e-8 A x |V|
                if not close(P - L, abs(vout) * iout, 1e-4, 5e-8 * max(1.0, abs(vin), abs(vout))):
                    res.v(("C02.balance", k, *tags), "%s P-L %r but |Vout|*Iout %r" % (name, P - L, abs(vout) * iout))
                ptol = 5e-8 * max(1.0, abs(vin), abs(vout)) + 2e-5 * P  # same solver-tolerance allowance as the balance (a loss-free switch shows Vin/Vout of successive sweeps)
                if L < -ptol or L > P * (1 + 1e-9) + ptol:
                    res.v(("C02.loss-range", k, *tags), "%s Loss %r Power %r" % (name, L, P))
                if P > 0:
                    if not close(E, 100.0 * (P - L) / P, 1e-9, 1e-9):
                        res.v(("C02.eff", k, *tags), "%s Eff %r but 100(P-L)/P %r" % (name, E, 100.0 * (P - L) / P))
                    if not (-1e-9 - 100.0 * ptol / P <= E <= 100.0 + 1e-9 + 100.0 * ptol / P):
                        res.v(("C02.eff-range", k, *tags), "%s Eff %r" % (name, E))
                ploss += L
                if L > 0:
                    res.stats["lossy_rows"] += 1
                if k == "Source":
                    psrc += P
                    vmax = max(vmax, abs(vin))
            else:
                cons = abs(vin) * iin
                if rec["a"].get("loss", False):
                    if not (close(L, cons, 1e-12, 1e-15) and P == 0):
                        res.v(("C02.load-loss", k), "%s loss-load P %r L %r consumption %r" % (name, P, L, cons))
                    ploss += L
                    if L > 0:
                        res.stats["lossload_rows"] += 1
                else:
                    if not (close(P, cons, 1e-12, 1e-15) and L == 0):
                        res.v(("C02.load-power", k), "%s load P %r L %r consumption %r" % (name, P, L, cons))
                    pload += P
            if k != "Source":
                rt = abs(rec["a"].get("rt", 0.0))
                shown = has(r, "Temp. rise (°C)") and has(r, "Peak temp. (°C)")  # blank = not displayed for this phase
                tr, tp = g(r, "Temp. rise (°C)"), g(r, "Peak temp. (°C)")
                lt = []
                if k in LOADS:  # how the rise relates to the consumption (identifies the recorded finding exactly)
                    lt = ["loss=%s" % rec["a"].get("loss", False),
                          "rise=rt*consumption" if close(tr, rt * abs(vin) * iin, 1e-12, 1e-15) else "rise=other"]
                if not close(tr, rt * L, 1e-12, 1e-15):
                    res.v(("C02.trise", k, *lt, "shown" if shown else "hidden"), "%s rise %r but rt*Loss %r" % (name, tr, rt * L))
                if shown and not close(tp, ta + tr, 1e-12, 1e-12):
                    res.v(("C02.tpeak", k, "dead" if vin == 0 else ("inactive" if not act else "live")), "%s peak %r but ta+rise %r" % (name, tp, ta + tr))
                if rt * L > 0:
                    res.stats["temp_rows"] += 1
    if "TP" in want and "C02" not in want:  # peak temperature = ambient + rise, on its own (for checks that must not report the recorded rise finding)
        for name, rec in d.items():
            r = rows[name]
            if rec["k"] != "Source" and has(r, "Temp. rise (°C)") and has(r, "Peak temp. (°C)"):
                tr, tp = g(r, "Temp. rise (°C)"), g(r, "Peak temp. (°C)")
                if not close(tp, ta + tr, 1e-12, 1e-12):
                    res.v(("C02.tpeak", rec["k"], "inactive" if not active(rec, ph) else ("dead" if g(r, "Vin (V)") == 0 else "live")), "%s peak %r but ta+rise %r" % (name, tp, ta + tr))
    if "C02" in want and not close(psrc, pload + ploss, 1e-4, 5e-8 * vmax * len(d)):
        res.v(("C02.system", "neg-source-rs" if any_neg_rs_source else "plain"), "sources %r loads+losses %r" % (psrc, pload + ploss))
    if "C02" in want and (ph, "System total") in obs:   # the table's own total row states the same balance
        tr_ = obs[(ph, "System total")]
        if not close(g(tr_, "Power (W)"), psrc, 1e-9, 1e-15) or not close(g(tr_, "Loss (W)"), ploss, 1e-9, 1e-15):
            res.v(("C02.total-row",), "phase %r System total P %r L %r, rows give %r / %r" % (ph, g(tr_, "Power (W)"), g(tr_, "Loss (W)"), psrc, ploss))
    return rows


def solve_and_check(res, spec, want, ta=25.0, solve_kw=None, holes=None, rej=False):
    """Build the real system, solve it (all phases) and run the row oracles for every phase.
    Returns (system, obs) or (system, None) when solve() raised RuntimeError / 'Unstable' (not judged here)."""
    from .common import quiet_call
    from .sysmodel import build, observe, build_holes
    s = build(spec) if not holes else build_holes(spec, analyse=(holes == "analysed"))   # holes: the same structure through an edit history
    res.stats["transitions"] += len(spec["comps"]) + 1
    if rej:   # every documented refusal (edits and analyses) is provoked first; the table must still be that of the structure
        from .sysmodel import rejected_edits
        if rejected_edits(s, spec):
            res.classes.add("refused-call-accepted")
            return s, None
    try:
        df, _ = quiet_call(s.solve, ta=ta, **(solve_kw or {}))
    except RuntimeError as e:
        res.classes.add("raised:RuntimeError")
        res.stats["unsolvable"] += 1
        return s, None
    except ValueError as e:
        if "Unstable" in str(e):
            res.classes.add("raised:Unstable")
            res.stats["unsolvable"] += 1
            return s, None
        res.v(("%s.exception" % want[0], "ValueError"), str(e))
        return s, None
    except Exception as e:  # any other exception type out of solve() on a legally built system is a violation, not a harness problem
        res.v(("%s.exception" % want[0], type(e).__name__), str(e)[:200])
        return s, None
    obs = observe(df)
    res.stats["traces"] += 1
    res.classes.add("solved")
    d = resolve(spec)
    for ph in (list(spec["phases"]) if spec.get("phases") else [""]):
        check_phase(res, spec, obs, ph, ta, want, d)
        res.stats["phase_tables"] += 1
    return s, obs

import sys, os, json, importlib, argparse


def main():
    ap = argparse.ArgumentParser()
    ap.add_argument("prop")
    ap.add_argument("--tier", default=os.environ.get("VERIF_TIER", "quick"), choices=["quick", "thorough"])
    ap.add_argument("--replay")
    a = ap.parse_args()
    mod = importlib.import_module("mc.props.%s" % a.prop.lower())
    if a.replay:
        with open(a.replay) as f:
            doc = json.load(f)
        sigs = mod.replay(doc)
        want = tuple(doc.get("signature", ()))
        hit = [s for s in sigs if tuple(s) == want] if want else sigs
        if hit:
            print("VIOLATION property=%s replay=%s" % (a.prop, a.replay))
            sys.exit(1)
        print("replay: signature %s not reproduced (%d other violations)" % (list(want), len(sigs)))
        sys.exit(0)
    sys.exit(mod.main(a.tier))


if __name__ == "__main__":
    main()

"""Shared runner for the bounded-exhaustive checks (see DESIGN.md section 2).

Every check is "enumerate a finite case space completely, run the REAL sysloss code on every case,
evaluate an oracle".  This module owns: binding to the working tree of /repo, the worker pool, violation
signatures, known findings, replay files, evidence files and the exit-code contract.
"""
import os, sys, json, time, hashlib, collections, itertools, traceback, io, contextlib

REPO = os.environ.get("SYSLOSS_REPO", "/repo")
VERIF = os.path.dirname(os.path.dirname(os.path.abspath(__file__)))
OUT = os.environ.get("VERIF_OUT", VERIF)  # experiments against scratch worktrees write their evidence elsewhere
os.environ.setdefault("MPLBACKEND", "Agg")
os.environ.setdefault("PYTHONHASHSEED", "0")
# keep BLAS single threaded: we parallelise over cases
for _v in ("OMP_NUM_THREADS", "OPENBLAS_NUM_THREADS", "MKL_NUM_THREADS"):
    os.environ.setdefault(_v, "1")
sys.path.insert(0, os.path.join(REPO, "src"))
import warnings

warnings.filterwarnings("ignore")
import sysloss  # noqa: E402

if not os.path.abspath(sysloss.__file__).startswith(os.path.join(os.path.abspath(REPO), "src")):
    print("HARNESS-ERROR: sysloss imported from %s, expected %s/src" % (sysloss.__file__, REPO))
    sys.exit(2)

NPROC = int(os.environ.get("VERIF_JOBS", "0")) or min(16, os.cpu_count() or 1)
RUNID = "%d" % os.getpid()  # inherited by forked workers: scratch files of concurrent runs never collide


def workdir(tag=""):
    d = os.path.join(OUT, ".work", "run-%s" % RUNID, "%s%d" % (tag, os.getpid()))
    os.makedirs(d, exist_ok=True)
    return d


def cleanup_workdir():
    import shutil
    shutil.rmtree(os.path.join(OUT, ".work", "run-%s" % RUNID), ignore_errors=True)
    try:
        os.rmdir(os.path.join(OUT, ".work"))
    except OSError:
        pass


def seed():
    try:
        return int(os.environ.get("VERIF_SEED", "0"))
    except ValueError:
        return 0


class Res:
    """Result of checking one case."""

    __slots__ = ("viol", "stats", "classes", "nontrivial")

    def __init__(self):
        self.viol = []  # list of (sig tuple, detail str)
        self.stats = collections.Counter()
        self.classes = set()
        self.nontrivial = 0

    def v(self, sig, detail=""):
        self.viol.append((tuple(str(x) for x in sig), str(detail)[:400]))


def quiet_call(f, *a, **k):
    """Call f with stdout/stderr captured (rich / tqdm output)."""
    out, err = io.StringIO(), io.StringIO()
    with contextlib.redirect_stdout(out), contextlib.redirect_stderr(err):
        r = f(*a, **k)
    return r, out.getvalue()


def close(a, b, rt=1e-4, at=1e-9):
    return abs(a - b) <= at + rt * max(abs(a), abs(b))


# ------------------------------------------------------------------------------------------------
# known findings
# ------------------------------------------------------------------------------------------------
def load_findings(prop):
    path = os.path.join(VERIF, "known_findings.json")
    if not os.path.exists(path):
        return []
    with open(path) as f:
        doc = json.load(f)
    return [e for e in doc.get("findings", []) if e.get("property") == prop and e.get("status") == "open"]


def match_finding(findings, sig):
    for e in findings:
        pat = e["signature"]
        if len(pat) == len(sig) and all(p == "*" or p == s for p, s in zip(pat, sig)):
            return e
    return None


# ------------------------------------------------------------------------------------------------
# pool
# ------------------------------------------------------------------------------------------------
_CHECK = None
import copy as _copy
import sysloss.components as _C
_GLOBALS0 = {k: _copy.deepcopy(getattr(_C, k)) for k in ("LIMITS_DEFAULT", "STATE_DEFAULT", "STATE_OFF")}
import sysloss.diagram as _D
_GLOBALS0D = {k: _copy.deepcopy(getattr(_D, k)) for k in ("_DEF_CONF", "_DEF_GRADIENT")}


def globals_intact():
    """module-level defaults of the library are shared by every component / diagram: no call may change them."""
    bad = [k for k, v in _GLOBALS0.items() if getattr(_C, k) != v] + [k for k, v in _GLOBALS0D.items() if getattr(_D, k) != v]
    for mod, snap in ((_C, _GLOBALS0), (_D, _GLOBALS0D)):
        for k, v in snap.items():
            if k in bad:  # restore IN PLACE: other modules hold references to the same objects
                cur = getattr(mod, k)
                if isinstance(cur, dict):
                    cur.clear()
                    cur.update(_copy.deepcopy(v))
                else:
                    setattr(mod, k, _copy.deepcopy(v))
    return bad


def _work(chunk):
    out = []
    for idx, case in chunk:
        try:
            r = _CHECK(case)
            bad = globals_intact()
            if bad:
                r.v(("GLOBAL.library-defaults-mutated", ",".join(bad)), "module-level default(s) %s changed while this case ran" % bad)
        except Exception as e:  # the oracle itself crashed: harness error, never a silent pass
            r = Res()
            r.v(("HARNESS", type(e).__name__), traceback.format_exc()[-600:])
        out.append((idx, r.viol, dict(r.stats), sorted(r.classes), r.nontrivial))
    return out


def _chunks(it, n):
    buf = []
    for x in it:
        buf.append(x)
        if len(buf) >= n:
            yield buf
            buf = []
    if buf:
        yield buf


class Run:
    """Accumulates the outcome of one check run and writes evidence / replay / exit code."""

    def __init__(self, prop, tier, replay_fn=None):
        self.prop, self.tier = prop, tier
        self.t0 = time.time()
        self.stats = collections.Counter()
        self.classes = set()
        self.nontrivial = 0
        self.cases = 0
        self.viol = {}  # sig -> [count, (idx, case, detail)]
        self.samples = []
        self.notes = {}
        self.caps = []
        self.replay_fn = replay_fn
        self.harness_errors = []
        import glob
        for f in glob.glob(os.path.join(OUT, "replays", "%s-*.json" % prop)):
            os.remove(f)

    # -- exhaustive map over a case iterator ----------------------------------------------------
    def map(self, check_fn, cases, chunk=32, family="", sample_every=None):
        global _CHECK
        _CHECK = check_fn
        import multiprocessing as mp

        stride = int(os.environ.get("VERIF_SMOKE_STRIDE", "0") or 0)   # development aid only (smoke-testing a tier): never set by the registered commands
        if stride > 1:
            cases = (c for j, c in enumerate(cases) if j % stride == 0)
            self.caps.append("SMOKE RUN: only every %d-th case was executed (VERIF_SMOKE_STRIDE)" % stride)
        indexed = ((i, c) for i, c in enumerate(cases))
        n0 = self.cases
        if NPROC <= 1:
            results = ((ch, _work(ch)) for ch in _chunks(indexed, chunk))
            pool = None
        else:
            ctx = mp.get_context("fork")
            pool = ctx.Pool(NPROC)
            results = pool.imap(_work_keep, _chunks_keep(indexed, chunk), chunksize=1)
        try:
            for cases_chunk, out in results:
                for j, (idx, viol, stats, classes, nontriv) in enumerate(out):
                    self.cases += 1
                    self.stats.update(stats)
                    self.classes.update(classes)
                    self.nontrivial += int(nontriv)
                    case = cases_chunk[j][1] if cases_chunk is not None else None
                    if case is not None and len(self.samples) < 3 and (idx % 997 == 0 or nontriv and len(self.samples) < 2):
                        self.samples.append({"family": family, "case": case})
                    for sig, detail in viol:
                        self._note(sig, idx, case, detail, family)
        finally:
            if pool:
                pool.close()
                pool.join()
        self.stats["cases:" + (family or "all")] += self.cases - n0

    def note(self, sig, case, detail="", family=""):
        self._note(tuple(str(x) for x in sig), 0, case, str(detail)[:400], family)

    def _note(self, sig, idx, case, detail, family):
        if sig and sig[0] == "HARNESS":
            self.harness_errors.append((sig, detail, case))
            return
        e = self.viol.get(sig)
        if e is None:
            self.viol[sig] = [1, (idx, case, detail, family)]
        else:
            e[0] += 1

    # -- finish ----------------------------------------------------------------------------------
    def finish(self, *, level="model_checking", rule="", assumptions=(), states=None, transitions=None,
               traces=None, exhaustive=True, extra=None):
        wall = time.time() - self.t0
        cleanup_workdir()
        findings = load_findings(self.prop)
        new, known = [], {}
        for sig, (cnt, (idx, case, detail, family)) in sorted(self.viol.items(), key=lambda kv: kv[1][1][0]):
            f = match_finding(findings, sig)
            if f is not None:
                k = known.setdefault(f["id"], [f, 0])
                k[1] += cnt
            else:
                new.append((sig, cnt, case, detail, family))
        rc = 0
        nondet = False
        for fid, (f, cnt) in sorted(known.items()):
            print("KNOWN-FINDING: property=%s %s [%s; %d occurrences in this run]" % (self.prop, f["what"], fid, cnt))
        os.makedirs(os.path.join(OUT, "replays"), exist_ok=True)
        vio_out = []
        MAXREP = 40  # replay files / re-executions are capped; every signature is still listed in the evidence
        for nv, (sig, cnt, case, detail, family) in enumerate(new):
            if nv >= MAXREP:
                vio_out.append({"signature": list(sig), "occurrences": cnt, "replay": None})
                continue
            doc = {"property": self.prop, "signature": list(sig), "family": family, "case": case,
                   "detail": detail, "occurrences": cnt}
            h = hashlib.sha1(json.dumps(doc["signature"]).encode()).hexdigest()[:10]
            path = os.path.join(OUT, "replays", "%s-%s.json" % (self.prop, h))
            # determinism: re-execute the minimal case before trusting the failure
            status = "reproduced"
            if self.replay_fn is not None and case is not None and nv < 8:
                try:
                    sigs = list(self.replay_fn(doc))
                    badg = globals_intact()
                    if badg:
                        sigs.append(("GLOBAL.library-defaults-mutated", ",".join(badg)))
                    if tuple(sig) not in set(tuple(s) for s in sigs):
                        status = "NOT-REPRODUCED"
                except Exception as e:
                    status = "replay-crashed:%s" % type(e).__name__
            doc["replay_status"] = status
            with open(path, "w") as f:
                json.dump(doc, f, indent=1, default=str)
            if status == "NOT-REPRODUCED":
                # The failure does not reproduce when the case is run alone: it depends on what ran before it in the same process
                # (state leaking between calls / objects inside the library -- every check is silent on the unchanged tree for every seed,
                # so the harness itself is not the source).  It is still a violation of the property; the replay file says so.
                print("HISTORY-DEPENDENT property=%s signature=%s (not reproducible in isolation: state leaks between calls or objects)" % (self.prop, list(sig)))
                nondet = True
                print("VIOLATION property=%s replay=%s" % (self.prop, path))
                print("   signature=%s occurrences=%d detail=%s" % (list(sig), cnt, detail[:300]))
                rc = max(rc, 1)
            else:
                print("VIOLATION property=%s replay=%s" % (self.prop, path))
                print("   signature=%s occurrences=%d detail=%s" % (list(sig), cnt, detail[:300]))
                rc = max(rc, 1)
            vio_out.append({"signature": list(sig), "occurrences": cnt, "replay": path})
        if len(new) > MAXREP:
            print("... and %d more violation signatures (see evidence file)" % (len(new) - MAXREP))
        for sig, detail, case in self.harness_errors[:5]:
            print("HARNESS-ERROR property=%s %s\n%s\ncase=%s" % (self.prop, sig, detail, json.dumps(case, default=str)[:500]))
        # exit code: 1 as soon as a violation was confirmed; 2 (harness problem) only when nothing else was found
        if rc == 0 and (self.harness_errors or nondet):
            rc = 2
        cov = {
            "states": int(states if states is not None else self.cases),
            "transitions": int(transitions if transitions is not None else self.stats.get("transitions", self.cases)),
            "traces_validated_against_impl": int(traces if traces is not None else self.stats.get("traces", self.cases)),
            "evaluations": int(self.stats.get("evaluations", self.cases)),
            "distinct_nontrivial": int(self.nontrivial),
            "rule": rule,
            "samples": self.samples[:4] or [{"note": "no sample recorded"}],
            "exhaustive": bool(exhaustive and not self.caps),
            "caps_hit": self.caps,
            "outcome_classes": sorted(self.classes)[:200],
            "distinct_outcome_classes": len(self.classes),
            "counters": {k: int(v) for k, v in sorted(self.stats.items())},
            "known_findings_seen": {fid: cnt for fid, (f, cnt) in known.items()},
            "violations": vio_out,
            "workers": NPROC,
        }
        if extra:
            cov.update(extra)
        cov.update(self.notes)
        ev = {
            "property_id": self.prop,
            "tier": self.tier,
            "seed": seed(),
            "level": level,
            "coverage": cov,
            "assumptions": list(assumptions),
            "wall_s": round(wall, 2),
            "violations": len(new),
        }
        os.makedirs(os.path.join(OUT, "evidence"), exist_ok=True)
        with open(os.path.join(OUT, "evidence", "%s.json" % self.prop), "w") as f:
            json.dump(ev, f, indent=1, default=str)
        print("%s tier=%s seed=%d cases=%d nontrivial=%d classes=%d violations=%d known=%d wall=%.1fs%s" % (
            self.prop, self.tier, seed(), self.cases, self.nontrivial, len(self.classes), len(new),
            len(known), wall, " CAPS=%s" % self.caps if self.caps else ""))
        return rc

    def require(self, cond, what):
        """Vacuity guard: the exploration must have exercised the interesting class."""
        if not cond:
            self.harness_errors.append((("HARNESS", "vacuous"), what, None))


def _chunks_keep(indexed, n):
    for ch in _chunks(indexed, n):
        yield ch


def _work_keep(chunk):
    return chunk, _work(chunk)

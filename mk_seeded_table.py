#!/venv/bin/python
"""Regenerates the per-change table of DESIGN.md section 13.1 from /verif/seeded/*/meta.json (in place)."""
import json, glob, os, re
here = os.path.dirname(os.path.abspath(__file__))
rows = []
for d in sorted(glob.glob(os.path.join(here, "seeded", "*"))):
    try:
        m = json.load(open(os.path.join(d, "meta.json")))
    except Exception:
        continue
    fr = m.get("final_recheck") or {}
    cr = m.get("checks_run", {})
    res = []
    for k, v in cr.items():
        res.append("%s:%s" % (k, "caught" if str(v) == "1" else ("exit %s" % v)))
    if fr and str(fr.get("exit_code")) == "1":
        res = ["%s:caught" % fr.get("check")]
    clean = lambda t: re.sub(r"\s+", " ", str(t)).replace("|", "/")
    rows.append("| %s | %s | %s | %s |" % (os.path.basename(d), clean(m.get("breaks", ""))[:260], clean(m.get("needs", ""))[:150], ", ".join(res)))
p = os.path.join(here, "DESIGN.md")
s = open(p).read()
a = s.index("| id | what the change breaks (agent's summary) | needs | checks run (final) |")
b = s.index("### 13.2 Own mutants")
new = "| id | what the change breaks (agent's summary) | needs | checks run (final) |\n|---|---|---|---|\n" + "\n".join(rows) + "\n\n"
open(p, "w").write(s[:a] + new + s[b:])
print(len(rows), "rows")

#!/venv/bin/python
"""Regenerates MANIFEST.json from the table below (run after adding a check)."""
import json, os
HERE = os.path.dirname(os.path.abspath(__file__))
BASE = "cd /repo && /venv/bin/python -m pytest -ra -q -p no:cacheprovider --timeout=900 --continue-on-collection-errors"
CHECKS = {
 "C01": ("E1 structure explorer", "exhaustive enumeration of all canonical power trees up to a node bound on the real solver; per-row fixed-point check against reference laws + polarity-mirror differential",
         "Every tree of <=3 non-source nodes over 26 component letters (and deeper chains over a small alphabet) is built and solved by the real code; each returned row is plugged into the documented law. Small-scope: a mis-composed law involves a node, its feeder and its children.",
         "reference laws in mc/sysmodel.py transcribe the statement; numeric palettes; planar 2-D tables; node bound", "3"),
 "C02": ("E1 structure explorer", "exhaustive tree enumeration x ambient/thermal/loss-flag/phase menu on the real solver; energy book-keeping identities evaluated on every returned table",
         "All book-keeping identities are checked on every row and per system for every enumerated tree, polarity, source resistance, ambient temperature and single-component phase configuration.",
         "identities are evaluated on the table alone (no reference solver); palettes; node bound", "3"),
 "C03": ("E1 structure explorer", "exhaustive enumeration of trees x solver-settings menu, overload trees and a modest-drop family on the real solver; residual re-evaluation of every law, polarity of passive elements, sweep counting",
         "Every (tree, vtol, itol, maxiter) combination of the menu is executed; the outcome must be an exception of the documented kind or a table that reproduces itself under one more law evaluation; overloads at every position; liveness against an independent reference solver.",
         "residual bound 10x requested tolerance; reference solver decides family membership only; palettes; node bounds", "3"),
 "C04": ("E1 structure explorer", "exhaustive enumeration of trees x dead-element position x cause of death on the real solver; exact-zero and exact-sleep-power oracle on every row",
         "For every position of every enumerated tree each way of killing the rail is applied and every row below must be exactly zero while siblings stay lawful.",
         "one dead cause at a time; palettes; node bounds", "3"),
 "C05": ("E1 structure explorer", "exhaustive enumeration of all PMux input tuples (1..4 inputs x input kind x live/dead cause x rs form x rails) on the real solver, two phases each",
         "All 9^k input-option tuples for k<=4 are solved; selection, attribution of the mux current, reported parent / rail / domain are compared with the first-live rule derived from the case description.",
         "inputs at most one component above the mux; one palette per run", "3"),
 "C06": ("E1 structure explorer", "exhaustive product of per-component phase configurations over enumerated trees on the real solver; per-phase law oracle + single-phase and phase-free projection differentials",
         "Every assignment of {none, every subset of phases} to every component of every enumerated tree is solved; each phase is checked against the statement's phase behaviour and against an equivalent phase-free system built through the public API.",
         "trees n<=2 (mid alphabet) / n=3 (deep alphabet) in quick; one palette per run", "3"),
 "C07": ("E1 structure explorer", "exhaustive enumeration of multi-source structures x ALL construction orders (linear extensions) x source patterns x phases x energy on the real solver; aggregates recomputed from component rows",
         "Every construction order of every enumerated multi-source structure (with and without PMux) is built and solved; domain attribution, Subsystem/total/average/energy rows are recomputed from the rows, and all orders must agree.",
         "small alphabet, <=6 non-source nodes; one palette per run", "3"),
 "C08": ("E1 structure explorer", "exhaustive enumeration of trees x every rail-assignment subset x attachment form x phases, and all PMux input tuples with rails, on the real code; rail_rep() recomputed from solve()",
         "For every enumerated tree all 2^k assignments of rails to non-load components are built; the rail report is recomputed from the solve() table of the same system.",
         "rail Efficiency column unconstrained; one palette per run", "3"),
 "C09": ("E1 structure explorer", "exhaustive product component x limit key x boundary placement x sign form over enumerated trees on the real solver; warning token sets recomputed from reported values and the applicability table",
         "Each limit key, applicable or not, is placed inside / exactly on / just outside the reported quantity of each component of each tree, so every comparison operator and every applicability entry is exercised at its boundary.",
         "values taken from a first solve() of the same system; magnitude comparison on limits; one palette per run", "3"),
 "C10": ("E4 argument-domain explorer", "exhaustive enumeration of table shapes/values x query lattice x 7 carriers, each query a solved probe system on the real code; exact / linear / corner-range / clamp oracle",
         "All value assignments of the small table shapes and every lattice point (on, between, outside the grid, both supply signs) are evaluated through real solves; the parameter is read back from the solved currents and voltages.",
         "lattice, not the reals; inside 2-D cells only the corner range is demanded", "5"),
 "C11": ("E4 argument-domain explorer", "exhaustive product of sign choices over magnitude parameters of all kinds (metamorphic solve equality + physicality) and the complete reject / accept menu of the statement on the real constructors",
         "Every subset of magnitude parameters is negated for 16 kind/form variants and the probe system must solve identically; every listed unphysical argument must raise ValueError and its good neighbours must be accepted and usable.",
         "finite value menus; unlisted argument types unconstrained", "5"),
 "C12": ("E1 structure explorer", "exhaustive enumeration of per-kind parameter subsets/forms, decorated trees and all PMux priority permutations; differential oracle S vs from_file(save(S)) over every report on the real code; version-gate menu",
         "Each enumerated system is saved, reloaded and compared report by report (keyed, 1e-9); every optional parameter is made to carry current so a dropped parameter moves a solved cell.",
         "only applicable limits configured; one palette per run", "5"),
 "C13": ("E4 argument-domain explorer", "exhaustive enumeration of optional-key subsets x value forms x limits, missing-key and wrong-type menus on the real TOML loader; differential oracle against the constructor call",
         "Every subset of optional keys and every alternative TOML form is loaded and compared (params row + solved probe system) with the constructor call; every mandatory key is removed and every excluded type tried.",
         "TOML written by toml.dumps; LinReg outside the wrong-type menu as stated", "5"),
 "C20": ("E4 argument-domain explorer", "exhaustive grid of (w1,w2,l,t,rho,temp,tcr) on the real functions; exact-rational closed form, 12 relational laws, every subset of omitted optional arguments and a state-leak sentinel per point",
         "Full Cartesian product of the value menus; closed form in exact rational arithmetic on the same floats.",
         "lattice, not the reals", "5"),
 "C14": ("E2 edit-history explorer", "explicit-state breadth-first search over all edit histories (depth/deviation bounded) of the real System, replay-from-scratch, state hashing on K_full; invariant on every reached state",
         "Every sequence of edit calls up to the bound from 14 seed states is executed on the real object; the well-formedness invariant is evaluated on each distinct state, after accepted and after rejected calls.",
         "5-letter component alphabet; K_full merges only states with identical futures (argument in DESIGN A.1)", "4"),
 "C15": ("E2 edit-history explorer", "explicit-state search over edit/configuration histories of the real System; for every rejected transition a full white-box snapshot and 8 public reports are compared before/after; second pass with warnings promoted to errors on the last call",
         "All rejected calls met by the bounded search (every op kind, every rejection reason, malformed phase arguments) are checked for leaving the object bit-identical and every report unchanged.",
         "5-letter alphabet; depth/budget bound", "4"),
 "C16": ("E2 edit-history explorer", "explicit-state search over edit histories of the real System; per distinct state: reference edit model (mc/e2.py model_apply) conformance + differential of all reports against a fresh build of the same structure",
         "Each distinct state reached by accepted edits is compared with the reference edit semantics applied to the same history and, report by report, with a system built from scratch; the model is bound to the code by this conformance check on every state.",
         "reference edit semantics transcribe the documentation (sets of outcomes where it is silent); 5-letter alphabet", "4"),
 "C17": ("E2 edit-history explorer", "exhaustive enumeration of all ordered pairs (triples) of 15 analyses on representative systems with white-box snapshot comparison, plus fault enumeration on batt_life (exception at every k-th callback, solver fault) on the real code",
         "Every ordered pair of analyses is executed on every representative system; the snapshot and the argument objects must be unchanged and the last result must equal its result on a fresh build. Every position of a callback / solver fault in every answer sequence is executed.",
         "9 representative systems; K_full covers what the methods read; DOT text instead of images", "4"),
 "C18": ("E3 environment-answer explorer", "stateless exhaustive enumeration of all battery-callback answer sequences up to depth k x terminators x phase sets x battery placements on the real batt_life(); recorded callback arguments compared with solve() of a fresh equivalent system",
         "The callbacks are the environment: all answer sequences of the menu are executed and every argument the library passes in is predicted from a fresh system holding the battery's present state.",
         "deterministic scripted callbacks; one system shape per variant", "4"),
 "C19": ("E1 structure explorer", "exhaustive enumeration of group assignments x configuration menu x plain/heat x grouping over system shapes, rendered by the real code to DOT text and parsed; subset through real Graphviz; SI-label magnitude lattice",
         "Every assignment of components to groups and every configuration of the menu is rendered; nodes, edges, clusters, attribute precedence, heat labels / colours / legend are recomputed from the system and its solved losses.",
         "DOT subset tokenizer; PNG back-end not inspected", "5"),
}
NOT_YET = {}
ALL = ["C%02d" % i for i in range(1, 21)]
checks = []
for pid in ALL:
    if pid not in CHECKS:
        continue
    eng, tech, text, note, sec = CHECKS[pid]
    checks.append({
        "property_id": pid,
        "quick_cmd": "./check %s --tier quick" % pid,
        "thorough_cmd": "./check %s --tier thorough" % pid,
        "evidence_file": "/verif/evidence/%s.json" % pid,
        "replay_cmd_template": "./check %s --replay {path}" % pid,
        "engine": eng,
        "level_claimed": {"category": "model_checking", "text": text, "design_ref": "DESIGN.md section %s" % sec},
        "level_note": note,
        "technique": tech,
    })
man = {
 "version": 1,
 "setup_cmd": "cd /verif && /venv/bin/python -m compileall -q mc && ./check SELFTEST",
 "hooks": {"guard": "SYSLOSS_VERIF", "enable": "no hooks are needed: checks import /repo/src directly (editable install) and instrument from the harness side; the guard name is reserved but unused",
           "baseline_off_cmd": BASE, "source_commits": [], "add_only": True},
 "engines": [
  {"name": "E1 structure explorer", "path": "/verif/mc/sysmodel.py", "serves_properties": ["C01","C02","C03","C04","C05","C06","C07","C08","C09","C12","C19"], "kind_free_text": "exhaustive enumeration of canonical component trees / forests / construction orders, each executed on the real System"},
  {"name": "E2 edit-history explorer", "path": "/verif/mc/e2.py", "serves_properties": ["C14","C15","C16","C17"], "kind_free_text": "explicit-state BFS over edit histories of the real System with replay-from-scratch, deviation-bounded"},
  {"name": "E3 environment-answer explorer", "path": "/verif/mc/props/c18.py", "serves_properties": ["C17","C18"], "kind_free_text": "stateless DFS over all battery-callback answer sequences and fault positions"},
  {"name": "E4 argument-domain explorer", "path": "/verif/mc/props", "serves_properties": ["C10","C11","C13","C20"], "kind_free_text": "full Cartesian products of per-parameter value menus"},
 ],
 "checks": checks,
 "not_applicable": [{"property_id": p, "reason": NOT_YET.get(p, "check not built yet (in progress); not claimed until it exists")} for p in ALL if p not in CHECKS],
 "notes": "All checks run the real implementation from /repo's working tree (sys.path[0]=/repo/src). VERIF_SEED selects the numeric palette and never sub-samples. known_findings.json lists recorded and fixed defects.",
}
json.dump(man, open(os.path.join(HERE, "MANIFEST.json"), "w"), indent=1)
print("checks:", [c["property_id"] for c in checks])

#!/venv/bin/python
"""Prints a markdown table of what the last run of every check covered (from /verif/evidence/*.json)."""
import json, glob, os
rows = []
for f in sorted(glob.glob(os.path.join(os.path.dirname(os.path.abspath(__file__)), "evidence", "C*.json"))):
    e = json.load(open(f)); c = e["coverage"]
    rows.append("| %s | %s | %d | %d | %d | %d | %d | %.0f s |" % (e["property_id"], e["tier"], c["states"], c["transitions"], c["traces_validated_against_impl"],
                c["distinct_nontrivial"], c.get("distinct_outcome_classes", 0), e["wall_s"]))
print("| id | tier | states (cases / distinct states) | transitions | traces validated | non-trivial | outcome classes | wall |\n|---|---|---|---|---|---|---|---|")
print("\n".join(rows))
